#!/usr/bin/env python3
"""Run every seeded change under /verif/seeded against the check of the property it breaks (and optionally a
second check), record the outcome in seeded/<id>/check.json and print a table.
  seedmatrix.py [ids...]"""
import json, os, subprocess, sys, time
HERE = os.path.dirname(os.path.dirname(os.path.abspath(__file__)))
ROOT = os.path.join(HERE, "seeded")
ALT = {"C09b-2": "C08", "C09d-2": "C08", "C16d-2": "C08", "C06g-2": "C08", "C09g-1": "C08", "C16g-2": "C08"}   # written for C09, but what it needs is a thread interleaving: decided by C08's check
ids = sys.argv[1:] or sorted(d for d in os.listdir(ROOT) if os.path.isdir(os.path.join(ROOT, d)) and not d.startswith("benign"))
for i in ids:
    prop = ALT.get(i, i[:3])
    t0 = time.time()
    env = dict(os.environ)
    try:
        base = json.load(open(os.path.join(ROOT, i, "meta.json"))).get("base_commit")
    except Exception:
        base = None
    if base: env["EVAL_BASE"] = base   # written against an earlier commit of /repo (a later fix: commit touches the same lines)
    r = subprocess.run([os.path.join(HERE, "tools", "evalseed.py"), os.path.join(ROOT, i, "patch.diff"), prop], text=True, stdout=subprocess.PIPE, stderr=subprocess.STDOUT, env=env)
    out = r.stdout
    exit_line = [l for l in out.splitlines() if l.startswith("EXIT")]
    code = int(exit_line[-1].split()[1]) if exit_line else -1
    classes = sorted(set(l.strip().split(" seed=")[0] for l in out.splitlines() if l.strip().startswith("class=")))
    res = {"seed": i, "check": prop, "exit": code, "detected": code == 1, "classes": classes, "wall_s": round(time.time() - t0, 1)}
    json.dump(res, open(os.path.join(ROOT, i, "check.json"), "w"), indent=1)
    print("%-8s %s exit=%d %s %s" % (i, prop, code, "DETECTED" if code == 1 else "MISSED", "; ".join(classes)[:150]), flush=True)
