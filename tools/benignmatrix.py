#!/usr/bin/env python3
"""Run behaviour-preserving changes through the checks; any alarm is a false alarm to investigate.
  benignmatrix.py <patchdir> [props...]      (default: all seven checks)"""
import json, os, subprocess, sys
HERE = os.path.dirname(os.path.dirname(os.path.abspath(__file__)))
d = sys.argv[1].rstrip("/")
props = sys.argv[2:] or ["C06", "C08", "C09", "C16", "C17", "C19", "C20"]
res = {}
for p in props:
    r = subprocess.run([os.path.join(HERE, "tools", "evalseed.py"), os.path.join(d, "patch.diff"), p], text=True, stdout=subprocess.PIPE, stderr=subprocess.STDOUT)
    ex = [l for l in r.stdout.splitlines() if l.startswith("EXIT")]
    code = int(ex[-1].split()[1]) if ex else -1
    classes = sorted(set(l.strip().split(" seed=")[0] for l in r.stdout.splitlines() if l.strip().startswith("class=")))
    res[p] = {"exit": code, "classes": classes}
    print("%s %s exit=%d %s" % (os.path.basename(d), p, code, "; ".join(classes)[:200]), flush=True)
json.dump(res, open(os.path.join(d, "checks.json"), "w"), indent=1)
