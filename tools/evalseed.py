#!/usr/bin/env python3
"""Run a check against a seeded change.
  evalseed.py <patch.diff> <prop> [extra check args]
Applies the patch in the scratch worktree /tmp/mut (reset to /repo's HEAD first), runs ./check <prop> against
it with a separate build dir, prints the tail of the output and the exit code, and reverts."""
import os, subprocess, sys
HERE = os.path.dirname(os.path.dirname(os.path.abspath(__file__)))   # the /verif this tool belongs to (a snapshot copy works too)
WT = os.environ.get("EVAL_WT", "/tmp/mut")
def sh(cmd):
    return subprocess.run(cmd, shell=True, text=True, stdout=subprocess.PIPE, stderr=subprocess.STDOUT)
if not os.path.exists(WT):
    print(sh("git -C /repo worktree add -q --detach %s HEAD" % WT).stdout)
BASE = os.environ.get("EVAL_BASE") or "$(git -C /repo rev-parse HEAD)"   # EVAL_BASE: the commit the change was written against, if not HEAD
sh("git -C %s checkout -q -f --detach %s; git -C %s checkout -- . ; git -C %s clean -fdq" % (WT, BASE, WT, WT))
patch, prop = sys.argv[1], sys.argv[2]
r = sh("git -C %s apply %s" % (WT, os.path.abspath(patch)))
if r.returncode != 0:
    print("PATCH DOES NOT APPLY:", r.stdout); sys.exit(3)
env = dict(os.environ, ORCSIM_REPO=WT, ORCSIM_BUILD=WT + "build")
r = subprocess.run([os.path.join(HERE, "check"), prop] + sys.argv[3:], env=env, text=True, stdout=subprocess.PIPE, stderr=subprocess.STDOUT)
lines = [l for l in r.stdout.splitlines() if not l.startswith("    #") and not l.startswith("KNOWN-FINDING")]
print("\n".join(l[:260] for l in lines[-10:]))
print("EXIT", r.returncode, "(1 = change detected)")
sh("git -C %s checkout -- . ; git -C %s clean -fdq" % (WT, WT))
