#!/bin/bash
# Confirm a seeded change independently: it must compile, pass the pinned suite, and its demonstration
# must fail with the change and pass without it.
#   confirmseed.sh <dir with patch.diff, run_demo.sh> [worktree]   -> prints a JSON line
set -u
D=$(realpath "$1"); WT=${2:-/tmp/confirm}
if [ ! -d "$WT" ]; then git -C /repo worktree add -q --detach "$WT" HEAD; fi
git -C "$WT" checkout -q --detach "$(git -C /repo rev-parse HEAD)"; git -C "$WT" checkout -- .; 
B="$WT/_build"
[ -d "$B" ] || meson setup "$B" "$WT" >/dev/null 2>&1
git -C "$WT" apply "$D/patch.diff" || { echo '{"applies":false}'; exit 1; }
meson compile -C "$B" >/dev/null 2>&1; compiled=$?
meson test -C "$B" > "$D/confirm-testsuite.log" 2>&1; suite=$?
okcount=$(grep -E "^Ok:" "$D/confirm-testsuite.log" | awk '{print $2}')
( cd "$D" && timeout 600 bash ./run_demo.sh "$B" "$WT" > "$D/confirm-demo-with.log" 2>&1 ); with=$?
git -C "$WT" checkout -- .
meson compile -C "$B" >/dev/null 2>&1
( cd "$D" && timeout 600 bash ./run_demo.sh "$B" "$WT" > "$D/confirm-demo-without.log" 2>&1 ); without=$?
echo "{\"applies\":true,\"compiles\":$compiled,\"suite_exit\":$suite,\"suite_ok\":\"$okcount\",\"demo_exit_with_change\":$with,\"demo_exit_without_change\":$without}" | tee "$D/confirm.json"
