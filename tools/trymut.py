#!/usr/bin/env python3
"""Sensitivity helper: apply a textual mutation in a scratch worktree of /repo,
run one check against it, print the verdict, and revert the mutation.

  trymut.py <prop> <file> <old> <new> [--runs N]   (old/new are python-escaped strings)
The scratch worktree (/tmp/mut) and its build dir (/tmp/mutbuild) are reused across calls;
remove them with: git -C /repo worktree remove --force /tmp/mut; rm -rf /tmp/mutbuild
"""
import os, subprocess, sys
WT = "/tmp/mut"
def sh(cmd, **kw):
    return subprocess.run(cmd, shell=True, text=True, stdout=subprocess.PIPE, stderr=subprocess.STDOUT, **kw)
if not os.path.exists(WT):
    print(sh("git -C /repo worktree add -q %s HEAD" % WT).stdout)
sh("git -C %s checkout -q --detach $(git -C /repo rev-parse HEAD) && git -C %s checkout -- ." % (WT, WT))
prop, f, old, new = sys.argv[1:5]
old = old.encode().decode("unicode_escape"); new = new.encode().decode("unicode_escape")
runs = sys.argv[sys.argv.index("--runs") + 1] if "--runs" in sys.argv else None
p = os.path.join(WT, f)
s = open(p).read()
if s.count(old) != 1:
    print("pattern occurs %d times" % s.count(old)); sys.exit(3)
open(p, "w").write(s.replace(old, new))
env = dict(os.environ, ORCSIM_REPO=WT, ORCSIM_BUILD="/tmp/mutbuild")
cmd = ["/verif/check", prop] + (["--runs", runs] if runs else [])
r = subprocess.run(cmd, env=env, text=True, stdout=subprocess.PIPE, stderr=subprocess.STDOUT)
lines = [l for l in r.stdout.splitlines() if not l.startswith("    #")]
print("\n".join(lines[-12:]))
print("EXIT", r.returncode, "(1 = mutation detected)")
sh("git -C %s checkout -- ." % WT)
