/* Fixed equivalent of meson's config.h for this platform (x86-64 Linux,
 * all backends enabled), used by /verif/check to compile /repo/orc/*.c. */
#pragma once
#define ENABLE_BACKEND_ALTIVEC 1
#define ENABLE_BACKEND_AVX 1
#define ENABLE_BACKEND_C64X 1
#define ENABLE_BACKEND_MIPS 1
#define ENABLE_BACKEND_MMX 1
#define ENABLE_BACKEND_NEON 1
#define ENABLE_BACKEND_SSE 1
#define HAVE_AMD64
#define HAVE_CLOCK_GETTIME
#define HAVE_CODEMEM_MMAP
#define HAVE_GETTIMEOFDAY
#define HAVE_MMAP
#define HAVE_MONOTONIC_CLOCK
#define HAVE_POSIX_MEMALIGN
#define HAVE_SYS_TIME_H
#define HAVE_THREAD_PTHREAD
#define HAVE_UNISTD_H
#define HAVE_VALGRIND_VALGRIND_H   /* as meson detects on this image: client requests are no-ops outside Valgrind */
#define HAVE_VASPRINTF
#undef ORC_NEEDS_ASM_XSAVE
#define PACKAGE_VERSION "0.4.40.1"
#define VERSION "0.4.40.1"
