/* linked immediately after the instrumented objects (liborc, generated wrappers) */
void orcsim_text_end(void) {}
