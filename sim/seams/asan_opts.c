/* Sanitizer defaults for every orcsim process: sanitizer hits exit with 77 so
 * that the supervisor classifies them; leak checks are explicit calls only. */
__attribute__((used, visibility("default"))) const char *__asan_default_options(void) {
  return "exitcode=77:detect_leaks=1:abort_on_error=0:allocator_may_return_null=1:"
         "detect_stack_use_after_return=0:handle_abort=1:print_summary=1:max_malloc_fill_size=65536:"
         /* the supervisor forks every child: keep its resident set (and so the cost of fork) small */
         "quarantine_size_mb=24";
}
__attribute__((used, visibility("default"))) const char *__lsan_default_options(void) {
  return "leak_check_at_exit=0:print_suppressions=0:report_objects=0";
}
