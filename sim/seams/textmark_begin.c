/* linked immediately before the instrumented objects (liborc, generated wrappers) */
void orcsim_text_begin(void) {}
