#pragma once
#include "../core/util.h"
namespace sim {
namespace alloc {
void set_poison(bool on, uint64_t seed);
size_t live_bytes();    // bytes currently held through the wrapped malloc family (liborc's allocations)
size_t live_blocks();
size_t total_allocs();
}  // namespace alloc
}  // namespace sim
