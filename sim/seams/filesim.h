// Simulated file / mapping layer behind the libc calls orc's code-memory
// allocator makes: mkstemp, unlink, ftruncate, mmap, munmap, close.
#pragma once
#include "../core/util.h"

namespace sim {
namespace fs {

enum Policy { P_OK = 0, P_MISSING = 1, P_UNWRITABLE = 2, P_NOEXEC = 3, P_FULL = 4, P_EMFILE = 5 };
const char *policy_name(int p);
int policy_from_name(const std::string &s);

enum Kind { K_MKSTEMP = 0, K_FTRUNCATE = 1, K_MMAP = 2, K_NKINDS = 3 };
const char *kind_name(int k);

struct Fault { int kind; int nth; int err; bool fired = false; };

struct OpStats {
  int calls[K_NKINDS] = {0, 0, 0};
  int fired = 0;              // transient faults that hit
  int policy_failures = 0;    // failures caused by directory / execmem policy
  std::string trace;          // e.g. "mkstemp(xdg)=ok ftruncate=ok mmap(x)=EPERM ..."
  int fds_opened = 0, fds_closed = 0;
  int maps_created = 0, maps_removed = 0;
  int exec_maps_ok = 0;
  std::vector<std::string> fired_positions;  // "<kind>.<nth>" of every transient fault that hit
};

void enable(bool on);          // off: everything passes through to libc
bool enabled();
void reset();
void set_dir(const std::string &path, int policy);
void set_execmem(bool allowed);
void set_flaky(int kind, int period);   // every period-th call of `kind` fails (0 = off); counted across the whole run
void begin_op(const std::vector<Fault> &faults);
OpStats end_op();
int open_fds();                // descriptors handed out and not yet closed
int open_unmapped_fds();       // ... of which no live mapping exists (an fd kept for a live region is not a leak)
int live_mappings();           // mappings handed out and not yet unmapped
std::vector<uintptr_t> live_mapping_addrs();   // their start addresses
int double_munmaps();          // munmap() of a range that was handed out by this seam and had already been unmapped
std::string open_fd_desc();
uint64_t flaky_fired();

}  // namespace fs
}  // namespace sim
