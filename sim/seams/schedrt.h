// Scheduler + happens-before runtime behind the TSan instrumentation ABI.
// liborc and the generated wrappers are compiled with -fsanitize=thread for
// the instrumentation only; this file's implementation is the runtime they
// call.  Tasks are ucontext coroutines; exactly one runs; every switch is a
// decision of the seeded scheduler (or of a recorded schedule on replay).
#pragma once
#include "../core/util.h"

namespace sim {
namespace rt {

enum Strategy { S_SYNC = 0, S_RANDOM = 1, S_PCT = 2, S_CONFLICT = 3, S_REPLAY = 4, S_ENUM = 5 };

struct SchedEntry { int task; uint64_t yield; int next; };

struct Config {
  int strategy = S_SYNC;
  uint64_t seed = 1;
  int p_den = 64;          // S_RANDOM / S_CONFLICT: switch with probability 1/p_den at a shared access
  int pct_d = 2;           // S_PCT: number of priority change points
  uint64_t pct_k = 400000; // S_PCT: assumed number of steps
  uint64_t max_steps = 60000000;
  std::vector<SchedEntry> schedule;  // S_REPLAY
  // S_ENUM: otherwise default scheduling, with exactly these forced switches: at the k-th synchronisation
  // decision point of the run (mutex lock/unlock, atomic operation, harness hand-off), switch to task `to`
  std::vector<std::pair<uint64_t, int>> enum_points;
};

struct Race {
  std::string key;   // stable: sorted pair of function names + object symbol
  std::string msg;
};

struct Stats {
  uint64_t accesses = 0, yields = 0, switches = 0, sync_ops = 0, mutex_blocks = 0, atomic_ops = 0;
  uint64_t interleaving_hash = 0;   // over (task, sync kind, object) at synchronisation points
  uint64_t shadow_words = 0;
};

typedef void (*TaskFn)(int tid);

void init(int ntasks, const Config &cfg);
void spawn(int tid, TaskFn fn);
// Runs tasks until all are finished.  Returns "" or "deadlock:..." / "budget".
std::string run_all();
int self();                         // running task id, or -1 in the main context
void publish(int channel);          // release on a harness channel (hand-off of an object)
void consume(int channel);          // acquire on a harness channel
void yield_hint();                  // a harness-level yield point (counts as a sync point)
const std::vector<Race> &races();
const Stats &stats();
const std::vector<SchedEntry> &realised();  // deviations from the default rule, as realised
std::string symbolize(uintptr_t pc);
void set_enabled(bool on);          // instrumentation callbacks are ignored while off

}  // namespace rt
}  // namespace sim
