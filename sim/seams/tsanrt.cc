// See schedrt.h.  This translation unit is compiled WITHOUT -fsanitize=thread.
#include "schedrt.h"

#include <algorithm>
#include <elf.h>
#include <fcntl.h>
#include <malloc.h>
#include <pthread.h>
#include <sys/mman.h>
#include <stdarg.h>
#include <stdio.h>
#include <ucontext.h>
#include <unistd.h>
#include <unordered_map>

extern "C" {
void *__real_malloc(size_t n);
void *__real_calloc(size_t a, size_t b);
void *__real_realloc(void *p, size_t n);
void __real_free(void *p);
char *__real_strdup(const char *s);
int __real_pthread_mutex_lock(pthread_mutex_t *m);
int __real_pthread_mutex_unlock(pthread_mutex_t *m);
void *__real_memcpy(void *d, const void *s, size_t n);
void *__real_memmove(void *d, const void *s, size_t n);
void *__real_memset(void *d, int c, size_t n);
int __real_vsnprintf(char *d, size_t n, const char *fmt, va_list ap);
int __real_vsprintf(char *d, const char *fmt, va_list ap);
char *__real_strcpy(char *d, const char *s);
char *__real_strncpy(char *d, const char *s, size_t n);
char *__real_strcat(char *d, const char *s);
int __real_fputs(const char *s, FILE *f);
// boundaries of the instrumented text (liborc + generated wrappers), see textmark_*.c
void orcsim_text_begin(void);
void orcsim_text_end(void);
}

namespace sim {
namespace rt {

// ---------------------------------------------------------------------------
// symbols (for stable race keys and readable messages)
// ---------------------------------------------------------------------------
struct Sym { uintptr_t addr; size_t size; std::string name; bool func; };
static std::vector<Sym> g_syms;
static bool g_syms_loaded = false;

static void load_syms() {
  if (g_syms_loaded) return;
  g_syms_loaded = true;
  bool ok;
  std::string img = read_file("/proc/self/exe", &ok);
  if (!ok || img.size() < sizeof(Elf64_Ehdr)) return;
  const Elf64_Ehdr *eh = (const Elf64_Ehdr *)img.data();
  if (memcmp(eh->e_ident, ELFMAG, SELFMAG) || eh->e_shoff == 0) return;
  const Elf64_Shdr *sh = (const Elf64_Shdr *)(img.data() + eh->e_shoff);
  for (int i = 0; i < eh->e_shnum; i++) {
    if (sh[i].sh_type != SHT_SYMTAB) continue;
    const Elf64_Sym *st = (const Elf64_Sym *)(img.data() + sh[i].sh_offset);
    size_t n = sh[i].sh_size / sizeof(Elf64_Sym);
    const char *str = img.data() + sh[sh[i].sh_link].sh_offset;
    for (size_t k = 0; k < n; k++) {
      int type = ELF64_ST_TYPE(st[k].st_info);
      if ((type != STT_FUNC && type != STT_OBJECT) || st[k].st_value == 0) continue;
      g_syms.push_back(Sym{(uintptr_t)st[k].st_value, (size_t)st[k].st_size, str + st[k].st_name, type == STT_FUNC});
    }
  }
  std::sort(g_syms.begin(), g_syms.end(), [](const Sym &a, const Sym &b) { return a.addr < b.addr; });
}
static const Sym *find_sym(uintptr_t a, bool func) {
  load_syms();
  size_t lo = 0, hi = g_syms.size();
  while (lo < hi) { size_t mid = (lo + hi) / 2; if (g_syms[mid].addr <= a) lo = mid + 1; else hi = mid; }
  for (size_t i = lo; i-- > 0 && lo - i < 8;) {
    const Sym &s = g_syms[i];
    if (s.func != func) continue;
    if (a >= s.addr && a < s.addr + std::max<size_t>(s.size, 1)) return &s;
  }
  return nullptr;
}
std::string symbolize(uintptr_t pc) {
  const Sym *s = find_sym(pc, true);
  return s ? s->name : strf("pc:%#lx", (unsigned long)pc);
}
static std::string object_name(uintptr_t a) {
  const Sym *s = find_sym(a, false);
  if (s) return s->name;
  return "";
}

// ---------------------------------------------------------------------------
// tasks, vector clocks
// ---------------------------------------------------------------------------
static const int MAXT = 20;
typedef uint32_t Clk;
struct VC { Clk c[MAXT + 1]; };
static inline void vc_join(VC &a, const VC &b) { for (int i = 0; i <= MAXT; i++) if (b.c[i] > a.c[i]) a.c[i] = b.c[i]; }

enum TState { T_NONE, T_RUNNABLE, T_BLOCKED, T_DONE };
struct Task {
  ucontext_t ctx;
  void *stack = nullptr;
  size_t stack_size = 0;
  TState state = T_NONE;
  TaskFn fn = nullptr;
  VC vc;
  uint64_t yields = 0;  // local decision-point counter
  void *blocked_on = nullptr;
  int prio = 0;
};
static Task g_tasks[MAXT];
static int g_ntasks = 0;
static int g_cur = -1;       // running task, -1 = main context
static ucontext_t g_main_ctx;
static VC g_main_vc;
static Config g_cfg;
static Rng g_rng(1);
static bool g_on = false;
static Stats g_stats;
static std::vector<Race> g_races;
static std::set<std::string> g_race_keys;
static std::vector<SchedEntry> g_realised;
static std::map<std::pair<int, uint64_t>, int> g_replay;
static std::string g_abort;   // set when the run must end (deadlock / budget)
static std::vector<uint64_t> g_pct_points;
static Fnv g_ihash;
static uintptr_t g_text_lo = 0, g_text_hi = 0;
// >0 while the runtime manipulates its own containers: their allocations must
// not re-enter the shadow bookkeeping.  Never held across a task switch.
static int g_busy = 0;
static uint64_t g_enum_sync_index = 0;
static const char *g_trace_obj = nullptr;
struct Busy { Busy() { g_busy++; } ~Busy() { g_busy--; } };

struct MutexM { int owner = -1; VC vc; bool vc_set = false; };
static std::map<void *, MutexM> g_mutexes;
struct AtomicM { VC vc; bool has = false; };
static std::map<uintptr_t, AtomicM> g_atomics;
static std::map<int, VC> g_channels;

static inline VC &cur_vc() { return g_cur >= 0 ? g_tasks[g_cur].vc : g_main_vc; }
static inline int cur_id() { return g_cur >= 0 ? g_cur : MAXT; }

static void sync_event(int kind, uintptr_t obj) {
  Busy busy;
  g_stats.sync_ops++;
  g_ihash.addu(((uint64_t)cur_id() << 56) ^ ((uint64_t)kind << 48) ^ (uint64_t)obj);
}
// object identity for the interleaving hash must not be an address: number objects in order of first use
static std::map<uintptr_t, int> g_objids;
static int objid(uintptr_t a) {
  Busy busy;
  auto it = g_objids.find(a);
  if (it != g_objids.end()) return it->second;
  int id = (int)g_objids.size();
  g_objids[a] = id;
  return id;
}

// ---------------------------------------------------------------------------
// scheduling
// ---------------------------------------------------------------------------
static int lowest_runnable(int except = -1) {
  for (int i = 0; i < g_ntasks; i++) if (i != except && g_tasks[i].state == T_RUNNABLE) return i;
  return -1;
}
static inline bool more_than_one_runnable() {
  int n = 0;
  for (int i = 0; i < g_ntasks; i++) if (g_tasks[i].state == T_RUNNABLE && ++n > 1) return true;
  return false;
}
static int random_runnable(int except) {
  int n = 0;
  for (int i = 0; i < g_ntasks; i++) if (i != except && g_tasks[i].state == T_RUNNABLE) n++;
  if (!n) return -1;
  int k = (int)g_rng.below(n);
  for (int i = 0; i < g_ntasks; i++) if (i != except && g_tasks[i].state == T_RUNNABLE) { if (!k) return i; k--; }
  return -1;
}
static int highest_prio_runnable() {
  int best = -1;
  for (int i = 0; i < g_ntasks; i++)
    if (g_tasks[i].state == T_RUNNABLE && (best < 0 || g_tasks[i].prio > g_tasks[best].prio)) best = i;
  return best;
}

static void switch_to(int next) {
  if (next == g_cur) return;
  g_stats.switches++;
  int prev = g_cur;
  g_cur = next;
  ucontext_t *from = prev >= 0 ? &g_tasks[prev].ctx : &g_main_ctx;
  ucontext_t *to = next >= 0 ? &g_tasks[next].ctx : &g_main_ctx;
  swapcontext(from, to);
}

// A decision point of the running task.  `must_leave`: the task cannot continue
// (blocked or finished).  Returns after the task is scheduled again.
static void decision_point(bool must_leave, bool is_sync, bool conflict) {
  if (g_cur < 0) return;
  Task &t = g_tasks[g_cur];
  uint64_t idx = t.yields++;
  g_stats.yields++;
  if (g_stats.yields > g_cfg.max_steps && g_abort.empty()) {
    g_abort = "budget";
    t.state = t.state == T_RUNNABLE ? T_RUNNABLE : t.state;
    switch_to(-1);
    return;
  }
  int me = g_cur;
  int dflt = must_leave ? lowest_runnable(me) : me;
  int next = dflt;
  if (g_cfg.strategy == S_REPLAY) {
    auto it = g_replay.find({me, idx});
    if (it != g_replay.end()) {
      int cand = it->second;
      if (cand >= 0 && cand < g_ntasks && g_tasks[cand].state == T_RUNNABLE && (cand != me || !must_leave)) next = cand;
    }
  } else if (g_cfg.strategy == S_ENUM) {
    if (is_sync && !must_leave) {
      uint64_t k = g_enum_sync_index++;
      for (auto &pt : g_cfg.enum_points)
        if (pt.first == k && pt.second >= 0 && pt.second < g_ntasks && pt.second != me && g_tasks[pt.second].state == T_RUNNABLE) next = pt.second;
    }
  } else if (must_leave) {
    if (g_cfg.strategy == S_PCT) next = highest_prio_runnable();
    else { int r = random_runnable(me); next = r; }
  } else {
    switch (g_cfg.strategy) {
      case S_SYNC:
        if (is_sync && more_than_one_runnable() && g_rng.chance(1, 2)) next = random_runnable(me);
        break;
      case S_RANDOM:
        if ((is_sync ? g_rng.chance(1, 2) : g_rng.chance(1, g_cfg.p_den)) && more_than_one_runnable()) next = random_runnable(me);
        break;
      case S_CONFLICT:
        if (((conflict && g_rng.chance(1, 2)) || (is_sync && g_rng.chance(1, 3)) || g_rng.chance(1, g_cfg.p_den * 16)) && more_than_one_runnable())
          next = random_runnable(me);
        break;
      case S_PCT: {
        // priority change points are global step indices
        while (!g_pct_points.empty() && g_stats.yields >= g_pct_points.back()) {
          g_pct_points.pop_back();
          t.prio = -(int)(g_pct_points.size() + 1);  // below every initial priority
        }
        int hp = highest_prio_runnable();
        if (hp >= 0) next = hp;
        break;
      }
    }
    if (next < 0) next = me;
  }
  if (next != dflt) { Busy busy; g_realised.push_back(SchedEntry{me, idx, next}); }
  if (next < 0) {
    // nobody can run
    if (must_leave) switch_to(-1);
    return;
  }
  if (next != me) switch_to(next);
}

static void task_trampoline(int tid) {
  g_tasks[tid].fn(tid);
  g_tasks[tid].state = T_DONE;
  sync_event(9, 0);
  // wake nobody; pick the next task
  for (;;) {
    decision_point(true, true, false);
    // decision_point returns here only if nobody was runnable: go back to main
    switch_to(-1);
  }
}

void init(int ntasks, const Config &cfg) {
  g_ntasks = std::min(ntasks, MAXT);
  g_cfg = cfg;
  g_rng.reseed(cfg.seed);
  g_cur = -1;
  g_stats = Stats();
  g_races.clear(); g_race_keys.clear(); g_realised.clear(); g_replay.clear(); g_abort.clear();
  g_mutexes.clear(); g_atomics.clear(); g_channels.clear(); g_objids.clear();
  g_ihash = Fnv();
  g_enum_sync_index = 0;
  memset(&g_main_vc, 0, sizeof g_main_vc);
  g_main_vc.c[MAXT] = 1;
  for (auto &e : cfg.schedule) g_replay[{e.task, e.yield}] = e.next;
  g_pct_points.clear();
  if (cfg.strategy == S_PCT) {
    for (int i = 0; i < cfg.pct_d; i++) g_pct_points.push_back(1 + g_rng.below(cfg.pct_k));
    std::sort(g_pct_points.begin(), g_pct_points.end(), std::greater<uint64_t>());
  }
  g_trace_obj = getenv("ORCSIM_RT_TRACE_OBJ");
  g_text_lo = (uintptr_t)&orcsim_text_begin;
  g_text_hi = (uintptr_t)&orcsim_text_end;
  load_syms();
}

void spawn(int tid, TaskFn fn) {
  Task &t = g_tasks[tid];
  t = Task();
  t.fn = fn;
  t.stack_size = 1 << 20;
  t.stack = mmap(nullptr, t.stack_size, PROT_READ | PROT_WRITE, MAP_PRIVATE | MAP_ANONYMOUS | MAP_STACK, -1, 0);
  getcontext(&t.ctx);
  t.ctx.uc_stack.ss_sp = t.stack;
  t.ctx.uc_stack.ss_size = t.stack_size;
  t.ctx.uc_link = &g_main_ctx;
  makecontext(&t.ctx, (void (*)())task_trampoline, 1, tid);
  t.state = T_RUNNABLE;
  memset(&t.vc, 0, sizeof t.vc);
  vc_join(t.vc, g_main_vc);   // everything the main context did before is ordered before the task
  t.vc.c[tid] = 1;
  if (g_cfg.strategy == S_PCT) t.prio = 1 + (int)g_rng.below(1000);
}

std::string run_all() {
  g_on = true;
  for (;;) {
    int next;
    if (g_cfg.strategy == S_PCT) next = highest_prio_runnable();
    else if (g_cfg.strategy == S_REPLAY || g_cfg.strategy == S_SYNC) next = lowest_runnable();
    else next = lowest_runnable();
    if (next < 0 || !g_abort.empty()) break;
    switch_to(next);   // returns when nobody can run (all done / all blocked) or on abort
    if (!g_abort.empty()) break;
    bool any_runnable = lowest_runnable() >= 0;
    if (!any_runnable) break;
  }
  g_on = false;
  g_cur = -1;
  g_stats.interleaving_hash = g_ihash.h;
  if (!g_abort.empty()) return g_abort;
  std::string blocked;
  for (int i = 0; i < g_ntasks; i++)
    if (g_tasks[i].state == T_BLOCKED) blocked += strf("%stask %d on %s", blocked.empty() ? "" : ", ", i, object_name((uintptr_t)g_tasks[i].blocked_on).c_str());
  if (!blocked.empty()) return "deadlock: " + blocked;
  // after the run the main context is ordered after every task
  for (int i = 0; i < g_ntasks; i++) vc_join(g_main_vc, g_tasks[i].vc);
  return "";
}

int self() { return g_cur; }
void set_enabled(bool on) { g_on = on; }
const std::vector<Race> &races() { return g_races; }
const Stats &stats() { return g_stats; }
const std::vector<SchedEntry> &realised() { return g_realised; }

void publish(int channel) {
  Busy busy;
  VC &c = g_channels[channel];
  vc_join(c, cur_vc());
  cur_vc().c[cur_id()]++;
  sync_event(5, 0x1000 + channel);
}
void consume(int channel) {
  Busy busy;
  auto it = g_channels.find(channel);
  if (it != g_channels.end()) vc_join(cur_vc(), it->second);
  sync_event(6, 0x1000 + channel);
}
void yield_hint() { if (g_on && g_cur >= 0) decision_point(false, true, false); }

// ---------------------------------------------------------------------------
// shadow memory
// ---------------------------------------------------------------------------
struct Cell {
  uint32_t w_epoch = 0, w_pc = 0;
  uint32_t r_epoch[4] = {0, 0, 0, 0}, r_pc[4] = {0, 0, 0, 0};
};
struct Word { Cell b[8]; };
// Open-addressing table word-index -> Word.  Keys and values live in separate
// lazily committed mappings, so probing touches only the key array and an
// untouched slot costs no memory.  Iteration order is never used.
struct ShadowTab {
  static const uintptr_t EMPTY = 0, TOMB = 1;
  uintptr_t *keys = nullptr;
  Word *vals = nullptr;
  size_t cap = 0, used = 0, tomb = 0;
  static void *map(size_t bytes) {
    void *p = mmap(nullptr, bytes, PROT_READ | PROT_WRITE, MAP_PRIVATE | MAP_ANONYMOUS | MAP_NORESERVE, -1, 0);
    if (p == MAP_FAILED) abort();
    return p;
  }
  void alloc(size_t c) { cap = c; used = tomb = 0; keys = (uintptr_t *)map(c * sizeof(uintptr_t)); vals = (Word *)map(c * sizeof(Word)); }
  static inline size_t hash(uintptr_t k) { return (size_t)((k * 0x9e3779b97f4a7c15ULL) >> 20); }
  bool empty() const { return used == 0; }
  Word *find(uintptr_t k) {
    if (!cap) return nullptr;
    for (size_t i = hash(k) & (cap - 1);; i = (i + 1) & (cap - 1)) {
      if (keys[i] == k) return &vals[i];
      if (keys[i] == EMPTY) return nullptr;
    }
  }
  void grow() {
    ShadowTab n;
    n.alloc(used * 4 > cap ? cap * 2 : cap);
    for (size_t i = 0; i < cap; i++)
      if (keys[i] > TOMB) { Word *w = n.get(keys[i]); *w = vals[i]; }
    munmap(keys, cap * sizeof(uintptr_t));
    munmap(vals, cap * sizeof(Word));
    *this = n;
  }
  Word *get(uintptr_t k) {   // find or insert (zero-initialised)
    if (!cap) alloc(1 << 18);
    if ((used + tomb) * 2 > cap) grow();
    size_t first_tomb = (size_t)-1;
    for (size_t i = hash(k) & (cap - 1);; i = (i + 1) & (cap - 1)) {
      if (keys[i] == k) return &vals[i];
      if (keys[i] == TOMB && first_tomb == (size_t)-1) first_tomb = i;
      if (keys[i] == EMPTY) {
        size_t at = first_tomb != (size_t)-1 ? first_tomb : i;
        if (at == first_tomb) tomb--;
        keys[at] = k;
        memset(&vals[at], 0, sizeof(Word));
        used++;
        return &vals[at];
      }
    }
  }
  void erase(uintptr_t k) {
    if (!cap) return;
    for (size_t i = hash(k) & (cap - 1);; i = (i + 1) & (cap - 1)) {
      if (keys[i] == k) { keys[i] = TOMB; used--; tomb++; return; }
      if (keys[i] == EMPTY) return;
    }
  }
};
static ShadowTab g_shadow;

static inline uint32_t mk_epoch(int tid, Clk c) { return ((uint32_t)(tid + 1) << 24) | (c & 0xffffff); }
static inline int ep_tid(uint32_t e) { return (int)(e >> 24) - 1; }
static inline Clk ep_clk(uint32_t e) { return e & 0xffffff; }

static void report_race(uintptr_t addr, bool cur_write, uintptr_t cur_pc, int other_tid, bool other_write, uint32_t other_pc) {
  Busy busy;
  std::string f1 = symbolize(cur_pc), f2 = symbolize(other_pc);
  std::string obj = object_name(addr);
  std::string a = f1, b = f2;
  if (b < a) std::swap(a, b);
  std::string key = a + "/" + b + (obj.empty() ? "" : "@" + obj);
  if (g_race_keys.count(key)) return;
  g_race_keys.insert(key);
  const Sym *os = find_sym(addr, false);
  std::string where = os ? strf("%s+%lu", os->name.c_str(), (unsigned long)(addr - os->addr)) : "heap/anonymous memory";
  g_races.push_back(Race{key, strf("data race on %s: %s by task %d in %s() is unordered with an earlier %s by task %d in %s()", where.c_str(),
                                   cur_write ? "write" : "read", g_cur, f1.c_str(), other_write ? "write" : "read", other_tid, f2.c_str())});
}

static inline bool last_access_by_other(uintptr_t addr) {
  Word *wp = g_shadow.find(addr >> 3);
  if (!wp) return false;
  const Cell &c = wp->b[addr & 7];
  if (c.w_epoch && ep_tid(c.w_epoch) != g_cur) return true;
  for (int i = 0; i < 4; i++) if (c.r_epoch[i] && ep_tid(c.r_epoch[i]) != g_cur) return true;
  return false;
}

static void shadow_access(uintptr_t addr, size_t size, bool write, uintptr_t pc) {
  Busy busy;
  Task &t = g_tasks[g_cur];
  if (g_trace_obj) {   // debugging aid: ORCSIM_RT_TRACE_OBJ=<symbol> prints every access to that object
    std::string on = object_name(addr);
    if (on == g_trace_obj) {
      const Sym *os = find_sym(addr, false);
      fprintf(stderr, "TRACE %s+%lu %s%zu by task %d in %s clk=%u vc=[", on.c_str(), (unsigned long)(addr - os->addr), write ? "W" : "R", size, g_cur,
              symbolize(pc).c_str(), t.vc.c[g_cur]);
      for (int i = 0; i < g_ntasks; i++) fprintf(stderr, "%u ", t.vc.c[i]);
      fprintf(stderr, "]\n");
    }
  }
  uint32_t my = mk_epoch(g_cur, t.vc.c[g_cur]);
  Word *wp = nullptr;
  uintptr_t wkey = 0;
  for (size_t k = 0; k < size; k++) {
    uintptr_t a = addr + k;
    if (!wp || (a >> 3) != wkey) { wkey = a >> 3; wp = g_shadow.get(wkey); }
    Word &w = *wp;
    Cell &c = w.b[a & 7];
    // fast paths: the same task touching the byte again within the same epoch adds no information
    if (c.w_epoch == my && (!write || !(c.r_epoch[0] | c.r_epoch[1] | c.r_epoch[2] | c.r_epoch[3]))) continue;
    if (!write && (c.r_epoch[0] == my || c.r_epoch[1] == my || c.r_epoch[2] == my || c.r_epoch[3] == my) &&
        (!c.w_epoch || ep_tid(c.w_epoch) == g_cur || ep_clk(c.w_epoch) <= t.vc.c[ep_tid(c.w_epoch)]))
      continue;
    if (c.w_epoch) {
      int wt = ep_tid(c.w_epoch);
      if (wt != g_cur && ep_clk(c.w_epoch) > t.vc.c[wt]) report_race(a, write, pc, wt, true, c.w_pc);
    }
    if (write) {
      for (int i = 0; i < 4; i++)
        if (c.r_epoch[i]) {
          int rt = ep_tid(c.r_epoch[i]);
          if (rt != g_cur && ep_clk(c.r_epoch[i]) > t.vc.c[rt]) report_race(a, true, pc, rt, false, c.r_pc[i]);
        }
      c.w_epoch = my;
      c.w_pc = (uint32_t)pc;
      for (int i = 0; i < 4; i++) c.r_epoch[i] = 0;
    } else {
      int slot = -1;
      for (int i = 0; i < 4; i++) if (c.r_epoch[i] && ep_tid(c.r_epoch[i]) == g_cur) slot = i;
      if (slot < 0) for (int i = 0; i < 4; i++) if (!c.r_epoch[i]) { slot = i; break; }
      if (slot < 0) slot = (int)(a & 3);  // evict: can only lose reports, never invent them
      c.r_epoch[slot] = my;
      c.r_pc[slot] = (uint32_t)pc;
    }
  }
}

static void clear_shadow(uintptr_t addr, size_t size) {
  if (g_busy || g_shadow.empty() || size == 0) return;
  Busy busy;
  uintptr_t lo = addr >> 3, hi = (addr + size + 7) >> 3;
  if (hi - lo > 65536) hi = lo + 65536;
  for (uintptr_t w = lo; w < hi; w++) {
    g_shadow.erase(w);
  }
}

static inline bool on_own_stack(uintptr_t a) {
  const Task &t = g_tasks[g_cur];
  return a >= (uintptr_t)t.stack && a < (uintptr_t)t.stack + t.stack_size;
}

static inline void mem_access(uintptr_t addr, size_t size, bool write, uintptr_t pc) {
  if (!g_on || g_cur < 0) return;
  if (on_own_stack(addr)) return;
  g_stats.accesses++;
  bool conflict = g_cfg.strategy == S_CONFLICT ? last_access_by_other(addr) : false;
  decision_point(false, false, conflict);
  if (!g_abort.empty()) return;
  shadow_access(addr, size, write, pc);
}

}  // namespace rt
}  // namespace sim

using namespace sim::rt;

#define PC ((uintptr_t)__builtin_return_address(0))

extern "C" {

void __tsan_init(void) {}
void __tsan_func_entry(void *) {}
void __tsan_func_exit(void) {}
void __tsan_vptr_update(void **, void *) {}
void __tsan_vptr_read(void **) {}

void __tsan_read1(void *a) { mem_access((uintptr_t)a, 1, false, PC); }
void __tsan_read2(void *a) { mem_access((uintptr_t)a, 2, false, PC); }
void __tsan_read4(void *a) { mem_access((uintptr_t)a, 4, false, PC); }
void __tsan_read8(void *a) { mem_access((uintptr_t)a, 8, false, PC); }
void __tsan_read16(void *a) { mem_access((uintptr_t)a, 16, false, PC); }
void __tsan_write1(void *a) { mem_access((uintptr_t)a, 1, true, PC); }
void __tsan_write2(void *a) { mem_access((uintptr_t)a, 2, true, PC); }
void __tsan_write4(void *a) { mem_access((uintptr_t)a, 4, true, PC); }
void __tsan_write8(void *a) { mem_access((uintptr_t)a, 8, true, PC); }
void __tsan_write16(void *a) { mem_access((uintptr_t)a, 16, true, PC); }
void __tsan_unaligned_read2(void *a) { mem_access((uintptr_t)a, 2, false, PC); }
void __tsan_unaligned_read4(void *a) { mem_access((uintptr_t)a, 4, false, PC); }
void __tsan_unaligned_read8(void *a) { mem_access((uintptr_t)a, 8, false, PC); }
void __tsan_unaligned_read16(void *a) { mem_access((uintptr_t)a, 16, false, PC); }
void __tsan_unaligned_write2(void *a) { mem_access((uintptr_t)a, 2, true, PC); }
void __tsan_unaligned_write4(void *a) { mem_access((uintptr_t)a, 4, true, PC); }
void __tsan_unaligned_write8(void *a) { mem_access((uintptr_t)a, 8, true, PC); }
void __tsan_unaligned_write16(void *a) { mem_access((uintptr_t)a, 16, true, PC); }
void __tsan_read_range(void *a, unsigned long n) { mem_access((uintptr_t)a, n, false, PC); }
void __tsan_write_range(void *a, unsigned long n) { mem_access((uintptr_t)a, n, true, PC); }
// read-before-write variants used for compound assignments
void __tsan_read_write1(void *a) { mem_access((uintptr_t)a, 1, true, PC); }
void __tsan_read_write2(void *a) { mem_access((uintptr_t)a, 2, true, PC); }
void __tsan_read_write4(void *a) { mem_access((uintptr_t)a, 4, true, PC); }
void __tsan_read_write8(void *a) { mem_access((uintptr_t)a, 8, true, PC); }

// ---- C11 atomics: executed sequentially consistently, but the memory order
// argument decides whether a happens-before edge exists -------------------------
enum { MO_RELAXED = 0, MO_CONSUME = 1, MO_ACQUIRE = 2, MO_RELEASE = 3, MO_ACQ_REL = 4, MO_SEQ_CST = 5 };

static void atomic_sync(uintptr_t a, bool is_load, bool is_store, int mo) {
  if (!g_on || g_cur < 0) return;
  g_stats.atomic_ops++;
  decision_point(false, true, false);
  Busy busy;
  Task &t = g_tasks[g_cur];
  AtomicM &am = g_atomics[a];
  if (is_load && (mo == MO_ACQUIRE || mo == MO_CONSUME || mo == MO_ACQ_REL || mo == MO_SEQ_CST) && am.has) vc_join(t.vc, am.vc);
  if (is_store) {
    if (mo == MO_RELEASE || mo == MO_ACQ_REL || mo == MO_SEQ_CST) {
      if (is_load && am.has) vc_join(am.vc, t.vc); else am.vc = t.vc;   // RMW continues a release sequence
      am.has = true;
      t.vc.c[g_cur]++;
    } else {
      am.has = false;   // a relaxed store heads no release sequence
    }
  }
  sync_event(is_store ? 3 : 4, objid(a));
}

int __tsan_atomic32_load(const volatile int *a, int mo) {
  atomic_sync((uintptr_t)a, true, false, mo);
  return __atomic_load_n(a, __ATOMIC_SEQ_CST);
}
void __tsan_atomic32_store(volatile int *a, int v, int mo) {
  atomic_sync((uintptr_t)a, false, true, mo);
  __atomic_store_n(a, v, __ATOMIC_SEQ_CST);
}
int __tsan_atomic32_exchange(volatile int *a, int v, int mo) {
  atomic_sync((uintptr_t)a, true, true, mo);
  return __atomic_exchange_n(a, v, __ATOMIC_SEQ_CST);
}
int __tsan_atomic32_fetch_add(volatile int *a, int v, int mo) {
  atomic_sync((uintptr_t)a, true, true, mo);
  return __atomic_fetch_add(a, v, __ATOMIC_SEQ_CST);
}
int __tsan_atomic32_fetch_and(volatile int *a, int v, int mo) {
  atomic_sync((uintptr_t)a, true, true, mo);
  return __atomic_fetch_and(a, v, __ATOMIC_SEQ_CST);
}
int __tsan_atomic32_fetch_or(volatile int *a, int v, int mo) {
  atomic_sync((uintptr_t)a, true, true, mo);
  return __atomic_fetch_or(a, v, __ATOMIC_SEQ_CST);
}
int __tsan_atomic32_compare_exchange_strong(volatile int *a, int *expected, int desired, int mo, int fmo) {
  (void)fmo;
  atomic_sync((uintptr_t)a, true, true, mo);
  return __atomic_compare_exchange_n(a, expected, desired, 0, __ATOMIC_SEQ_CST, __ATOMIC_SEQ_CST);
}
int __tsan_atomic32_compare_exchange_val(volatile int *a, int expected, int desired, int mo, int fmo) {
  (void)fmo;
  atomic_sync((uintptr_t)a, true, true, mo);
  __atomic_compare_exchange_n(a, &expected, desired, 0, __ATOMIC_SEQ_CST, __ATOMIC_SEQ_CST);
  return expected;
}
void __tsan_atomic_thread_fence(int) {}
void __tsan_atomic_signal_fence(int) {}

// ---- mutexes ------------------------------------------------------------------
int __wrap_pthread_mutex_lock(pthread_mutex_t *m) {
  if (!g_on || g_cur < 0) {
    Busy busy;
    MutexM &mm = g_mutexes[m];
    mm.owner = MAXT;
    if (mm.vc_set) vc_join(g_main_vc, mm.vc);
    return 0;
  }
  decision_point(false, true, false);
  for (;;) {
    g_busy++;
    MutexM &mm = g_mutexes[m];
    g_busy--;
    if (mm.owner < 0) {
      mm.owner = g_cur;
      if (mm.vc_set) vc_join(g_tasks[g_cur].vc, mm.vc);
      sync_event(1, objid((uintptr_t)m));
      return 0;
    }
    // held (possibly by ourselves: a non-recursive mutex then never becomes free)
    g_stats.mutex_blocks++;
    g_tasks[g_cur].state = T_BLOCKED;
    g_tasks[g_cur].blocked_on = m;
    sync_event(7, objid((uintptr_t)m));
    decision_point(true, true, false);
    if (g_tasks[g_cur].state == T_BLOCKED) {
      // nobody else could run: genuine deadlock; return to the main context for the report
      switch_to(-1);
    }
  }
}

// pthread_once: the control word is modelled like a mutex held for the whole initialisation, plus a "done"
// flag; every caller returns ordered after the initialisation (that is the function's contract)
struct OnceM { int state = 0; int owner = -1; VC vc; bool vc_set = false; };
static std::map<pthread_once_t *, OnceM> g_onces;
int __wrap_pthread_once(pthread_once_t *ctl, void (*fn)(void)) {
  if (!g_on || g_cur < 0) {
    Busy busy;
    OnceM &o = g_onces[ctl];
    if (o.state == 2) { if (o.vc_set) vc_join(g_main_vc, o.vc); return 0; }
    o.state = 2;
    fn();
    o.vc = g_main_vc; o.vc_set = true;
    g_main_vc.c[MAXT]++;
    return 0;
  }
  decision_point(false, true, false);
  for (;;) {
    g_busy++;
    OnceM &o = g_onces[ctl];
    g_busy--;
    if (o.state == 2) {
      if (o.vc_set) vc_join(g_tasks[g_cur].vc, o.vc);
      sync_event(1, objid((uintptr_t)ctl));
      return 0;
    }
    if (o.state == 0) {
      o.state = 1; o.owner = g_cur;
      sync_event(1, objid((uintptr_t)ctl));
      fn();
      g_busy++;
      OnceM &o2 = g_onces[ctl];
      g_busy--;
      o2.state = 2; o2.owner = -1;
      o2.vc = g_tasks[g_cur].vc; o2.vc_set = true;
      g_tasks[g_cur].vc.c[g_cur]++;
      for (int i = 0; i < g_ntasks; i++)
        if (g_tasks[i].state == T_BLOCKED && g_tasks[i].blocked_on == (void *)ctl) { g_tasks[i].state = T_RUNNABLE; g_tasks[i].blocked_on = nullptr; }
      sync_event(2, objid((uintptr_t)ctl));
      decision_point(false, true, false);
      return 0;
    }
    // another task is initialising: wait for it
    g_tasks[g_cur].state = T_BLOCKED;
    g_tasks[g_cur].blocked_on = (void *)ctl;
    sync_event(7, objid((uintptr_t)ctl));
    decision_point(true, true, false);
    if (g_tasks[g_cur].state == T_BLOCKED) switch_to(-1);
  }
}

int __wrap_pthread_mutex_unlock(pthread_mutex_t *m) {
  g_busy++;
  MutexM &mm = g_mutexes[m];
  g_busy--;
  if (!g_on || g_cur < 0) {
    mm.owner = -1;
    mm.vc = g_main_vc; mm.vc_set = true;
    g_main_vc.c[MAXT]++;
    return 0;
  }
  Task &t = g_tasks[g_cur];
  if (mm.owner != g_cur) {
    // unlocking a mutex this task does not hold: either nobody holds it, or another task's critical section is
    // being opened from outside
    std::string key = "mutex-unlocked-by-non-owner:" + symbolize(PC);
    if (!g_race_keys.count(key)) {
      g_race_keys.insert(key);
      g_races.push_back(Race{key, sim::strf("task %d unlocks a mutex in %s() that %s", g_cur, symbolize(PC).c_str(),
                                            mm.owner < 0 ? "nobody holds (released twice)" : sim::strf("task %d holds", mm.owner).c_str())});
    }
  }
  mm.owner = -1;
  if (mm.vc_set) vc_join(mm.vc, t.vc); else { mm.vc = t.vc; mm.vc_set = true; }
  t.vc.c[g_cur]++;
  for (int i = 0; i < g_ntasks; i++)
    if (g_tasks[i].state == T_BLOCKED && g_tasks[i].blocked_on == m) { g_tasks[i].state = T_RUNNABLE; g_tasks[i].blocked_on = nullptr; }
  sync_event(2, objid((uintptr_t)m));
  decision_point(false, true, false);
  return 0;
}

// ---- allocator: recycled addresses must not look like shared accesses ----------
void *__wrap_malloc(size_t n) {
  void *p = __real_malloc(n);
  if (p && g_on) clear_shadow((uintptr_t)p, malloc_usable_size(p));
  return p;
}
void *__wrap_calloc(size_t a, size_t b) {
  void *p = __real_calloc(a, b);
  if (p && g_on) clear_shadow((uintptr_t)p, malloc_usable_size(p));
  return p;
}
void *__wrap_realloc(void *old, size_t n) {
  if (old && g_on) clear_shadow((uintptr_t)old, malloc_usable_size(old));
  void *p = __real_realloc(old, n);
  if (p && g_on) clear_shadow((uintptr_t)p, malloc_usable_size(p));
  return p;
}
void __wrap_free(void *p) {
  if (p && g_on) clear_shadow((uintptr_t)p, malloc_usable_size(p));
  __real_free(p);
}
char *__wrap_strdup(const char *s) {
  char *p = __real_strdup(s);
  if (p && g_on) clear_shadow((uintptr_t)p, malloc_usable_size(p));
  return p;
}

// ---- mem intrinsics called from instrumented code -------------------------------
static inline bool from_instrumented(uintptr_t pc) { return pc >= g_text_lo && pc < g_text_hi; }

void *__wrap_memcpy(void *d, const void *s, size_t n) {
  uintptr_t pc = PC;
  if (g_on && g_cur >= 0 && n && from_instrumented(pc)) {
    mem_access((uintptr_t)s, n, false, pc);
    mem_access((uintptr_t)d, n, true, pc);
  }
  return __real_memcpy(d, s, n);
}
void *__wrap_memmove(void *d, const void *s, size_t n) {
  uintptr_t pc = PC;
  if (g_on && g_cur >= 0 && n && from_instrumented(pc)) {
    mem_access((uintptr_t)s, n, false, pc);
    mem_access((uintptr_t)d, n, true, pc);
  }
  return __real_memmove(d, s, n);
}
void *__wrap_memset(void *d, int c, size_t n) {
  uintptr_t pc = PC;
  if (g_on && g_cur >= 0 && n && from_instrumented(pc)) mem_access((uintptr_t)d, n, true, pc);
  return __real_memset(d, c, n);
}

// ---- libc string/format functions that write to (or read from) a caller's buffer: what they touch
// counts as an access of the instrumented caller, like the mem intrinsics above
int __wrap_vsnprintf(char *d, size_t n, const char *fmt, va_list ap) {
  uintptr_t pc = PC;
  int r = __real_vsnprintf(d, n, fmt, ap);
  if (g_on && g_cur >= 0 && n && d && r >= 0 && from_instrumented(pc)) mem_access((uintptr_t)d, std::min<size_t>((size_t)r + 1, n), true, pc);
  return r;
}
int __wrap_snprintf(char *d, size_t n, const char *fmt, ...) {
  uintptr_t pc = PC;
  va_list ap;
  va_start(ap, fmt);
  int r = __real_vsnprintf(d, n, fmt, ap);
  va_end(ap);
  if (g_on && g_cur >= 0 && n && d && r >= 0 && from_instrumented(pc)) mem_access((uintptr_t)d, std::min<size_t>((size_t)r + 1, n), true, pc);
  return r;
}
int __wrap_vsprintf(char *d, const char *fmt, va_list ap) {
  uintptr_t pc = PC;
  int r = __real_vsprintf(d, fmt, ap);
  if (g_on && g_cur >= 0 && d && r >= 0 && from_instrumented(pc)) mem_access((uintptr_t)d, (size_t)r + 1, true, pc);
  return r;
}
int __wrap_sprintf(char *d, const char *fmt, ...) {
  uintptr_t pc = PC;
  va_list ap;
  va_start(ap, fmt);
  int r = __real_vsprintf(d, fmt, ap);
  va_end(ap);
  if (g_on && g_cur >= 0 && d && r >= 0 && from_instrumented(pc)) mem_access((uintptr_t)d, (size_t)r + 1, true, pc);
  return r;
}
char *__wrap_strcpy(char *d, const char *s) {
  uintptr_t pc = PC;
  if (g_on && g_cur >= 0 && from_instrumented(pc)) { size_t n = strlen(s) + 1; mem_access((uintptr_t)s, n, false, pc); mem_access((uintptr_t)d, n, true, pc); }
  return __real_strcpy(d, s);
}
char *__wrap_strncpy(char *d, const char *s, size_t n) {
  uintptr_t pc = PC;
  if (g_on && g_cur >= 0 && n && from_instrumented(pc)) { mem_access((uintptr_t)s, std::min(strlen(s) + 1, n), false, pc); mem_access((uintptr_t)d, n, true, pc); }
  return __real_strncpy(d, s, n);
}
char *__wrap_strcat(char *d, const char *s) {
  uintptr_t pc = PC;
  if (g_on && g_cur >= 0 && from_instrumented(pc)) { size_t dl = strlen(d), n = strlen(s) + 1; mem_access((uintptr_t)s, n, false, pc); mem_access((uintptr_t)d + dl, n, true, pc); }
  return __real_strcat(d, s);
}
int __wrap_fputs(const char *s, FILE *f) {
  uintptr_t pc = PC;
  if (g_on && g_cur >= 0 && s && from_instrumented(pc)) mem_access((uintptr_t)s, strlen(s) + 1, false, pc);
  return __real_fputs(s, f);
}

}  // extern "C"

// ---- C++ allocations of the harness go through the same wrappers, so that
// memory recycled between tasks by operator new/delete never carries stale
// shadow state (which would look like a race and, worse, would make the
// schedule depend on addresses) -------------------------------------------------
#include <new>
void *operator new(size_t n) { void *p = __wrap_malloc(n ? n : 1); if (!p) abort(); return p; }
void *operator new[](size_t n) { void *p = __wrap_malloc(n ? n : 1); if (!p) abort(); return p; }
void *operator new(size_t n, const std::nothrow_t &) noexcept { return __wrap_malloc(n ? n : 1); }
void *operator new[](size_t n, const std::nothrow_t &) noexcept { return __wrap_malloc(n ? n : 1); }
void operator delete(void *p) noexcept { __wrap_free(p); }
void operator delete[](void *p) noexcept { __wrap_free(p); }
void operator delete(void *p, size_t) noexcept { __wrap_free(p); }
void operator delete[](void *p, size_t) noexcept { __wrap_free(p); }
