#include "filesim.h"

#include <errno.h>
#include <fcntl.h>
#include <sys/mman.h>
#include <sys/types.h>
#include <unistd.h>

extern "C" {
int __real_mkstemp(char *tmpl);
int __real_unlink(const char *path);
int __real_ftruncate(int fd, off_t len);
void *__real_mmap(void *addr, size_t len, int prot, int flags, int fd, off_t off);
int __real_munmap(void *addr, size_t len);
int __real_close(int fd);
}

namespace sim {
namespace fs {

const char *policy_name(int p) {
  switch (p) {
    case P_OK: return "ok";
    case P_MISSING: return "missing";
    case P_UNWRITABLE: return "unwritable";
    case P_NOEXEC: return "noexec";
    case P_FULL: return "full";
    case P_EMFILE: return "emfile";
  }
  return "?";
}
int policy_from_name(const std::string &s) {
  for (int p = 0; p <= P_EMFILE; p++) if (s == policy_name(p)) return p;
  return P_OK;
}
const char *kind_name(int k) { return k == K_MKSTEMP ? "mkstemp" : k == K_FTRUNCATE ? "ftruncate" : "mmap"; }

static const char *errname(int e) {
  switch (e) {
    case EPERM: return "EPERM"; case EACCES: return "EACCES"; case ENOENT: return "ENOENT";
    case EMFILE: return "EMFILE"; case ENOSPC: return "ENOSPC"; case ENOMEM: return "ENOMEM";
    case ENODEV: return "ENODEV"; case EIO: return "EIO"; case EROFS: return "EROFS";
  }
  return "E?";
}

struct FdInfo { std::string dir; int policy; bool unlinked; std::string name; uint64_t id; int live_maps; };

static bool g_on = false;
static std::map<std::string, int> g_dirs;
static bool g_execmem = true;
static std::map<int, FdInfo> g_fds;
struct MapInfo { size_t len; uint64_t fd_id; };
static std::map<uintptr_t, MapInfo> g_maps;
static std::set<uintptr_t> g_gone;   // start addresses handed out earlier and unmapped since
static int g_double_munmaps = 0;
static uint64_t g_fd_ids = 0;
static std::vector<Fault> g_faults;
static OpStats g_st;
static uint64_t g_name_counter = 0;
static int g_flaky_period[K_NKINDS] = {0, 0, 0};
static uint64_t g_flaky_count[K_NKINDS] = {0, 0, 0};
static uint64_t g_flaky_fired = 0;

void enable(bool on) { g_on = on; }
bool enabled() { return g_on; }
void reset() {
  g_dirs.clear(); g_execmem = true; g_fds.clear(); g_maps.clear(); g_faults.clear(); g_gone.clear(); g_double_munmaps = 0;
  g_st = OpStats(); g_name_counter = 0;
  for (int k = 0; k < K_NKINDS; k++) { g_flaky_period[k] = 0; g_flaky_count[k] = 0; }
  g_flaky_fired = 0;
}
void set_flaky(int kind, int period) { if (kind >= 0 && kind < K_NKINDS) g_flaky_period[kind] = period; }
uint64_t flaky_fired() { return g_flaky_fired; }
void set_dir(const std::string &path, int policy) { g_dirs[path] = policy; }
void set_execmem(bool allowed) { g_execmem = allowed; }
void begin_op(const std::vector<Fault> &faults) { g_faults = faults; g_st = OpStats(); }
OpStats end_op() { OpStats s = g_st; g_faults.clear(); g_st = OpStats(); return s; }
int open_fds() { return (int)g_fds.size(); }
// descriptors that are open although no live mapping was made from them: nothing can ever need them again
int open_unmapped_fds() {
  int n = 0;
  for (auto &kv : g_fds) if (kv.second.live_maps == 0) n++;
  return n;
}
int live_mappings() { return (int)g_maps.size(); }
int double_munmaps() { return g_double_munmaps; }
std::vector<uintptr_t> live_mapping_addrs() { std::vector<uintptr_t> v; for (auto &kv : g_maps) v.push_back(kv.first); return v; }
std::string open_fd_desc() {
  std::string s;
  for (auto &kv : g_fds) s += strf("%s%s", s.empty() ? "" : ",", kv.second.dir.c_str());
  return s;
}

// transient fault for the nth call of `kind` within the current op?
static int transient(int kind) {
  if (g_flaky_period[kind] > 0 && (++g_flaky_count[kind] % g_flaky_period[kind]) == 0) {
    g_flaky_fired++;
    g_st.fired++;
    g_st.calls[kind]++;
    return kind == K_MKSTEMP ? EMFILE : kind == K_FTRUNCATE ? ENOSPC : ENOMEM;
  }
  int nth = g_st.calls[kind]++;
  for (auto &f : g_faults)
    if (f.kind == kind && f.nth == nth) {
      f.fired = true; g_st.fired++;
      g_st.fired_positions.push_back(strf("%s.%d", kind_name(kind), nth));
      return f.err;
    }
  return 0;
}

}  // namespace fs
}  // namespace sim

using namespace sim;
using namespace sim::fs;

extern "C" {

int __wrap_mkstemp(char *tmpl) {
  if (!g_on) return __real_mkstemp(tmpl);
  std::string t = tmpl;
  size_t slash = t.rfind('/');
  std::string dir = slash == std::string::npos ? "." : t.substr(0, slash);
  int err = transient(K_MKSTEMP);
  int policy = P_MISSING;
  auto it = g_dirs.find(dir);
  if (it != g_dirs.end()) policy = it->second;
  if (!err) {
    if (policy == P_MISSING) err = ENOENT;
    else if (policy == P_UNWRITABLE) err = EACCES;
    else if (policy == P_EMFILE) err = EMFILE;
    if (err) g_st.policy_failures++;
  }
  if (err) {
    g_st.trace += strf("mkstemp(%s)=%s ", dir.c_str(), errname(err));
    errno = err;
    return -1;
  }
  int fd = memfd_create("orcsim-codemem", MFD_CLOEXEC);
  if (fd < 0) { g_st.trace += "mkstemp=REALFAIL "; return -1; }
  // deterministic replacement of the XXXXXX suffix
  size_t n = strlen(tmpl);
  uint64_t c = g_name_counter++;
  for (int i = 0; i < 6 && n >= 6; i++) { tmpl[n - 1 - i] = 'a' + (c % 26); c /= 26; }
  g_fds[fd] = FdInfo{dir, policy, false, tmpl, ++g_fd_ids, 0};
  g_st.fds_opened++;
  g_st.trace += strf("mkstemp(%s)=ok ", dir.c_str());
  return fd;
}

int __wrap_unlink(const char *path) {
  if (!g_on) return __real_unlink(path);
  for (auto &kv : g_fds)
    if (kv.second.name == path) { kv.second.unlinked = true; return 0; }
  // not one of ours: simulated files never exist on the real file system
  errno = ENOENT;
  return -1;
}

int __wrap_ftruncate(int fd, off_t len) {
  if (!g_on) return __real_ftruncate(fd, len);
  auto it = g_fds.find(fd);
  if (it == g_fds.end()) return __real_ftruncate(fd, len);
  int err = transient(K_FTRUNCATE);
  if (!err && it->second.policy == P_FULL) { err = ENOSPC; g_st.policy_failures++; }
  if (err) { g_st.trace += strf("ftruncate=%s ", errname(err)); errno = err; return -1; }
  g_st.trace += "ftruncate=ok ";
  return __real_ftruncate(fd, len);
}

// the other ways of giving a file its size fail where ftruncate fails, each in its own error convention
int __real_posix_fallocate(int fd, off_t off, off_t len);
int __wrap_posix_fallocate(int fd, off_t off, off_t len) {
  if (!g_on) return __real_posix_fallocate(fd, off, len);
  auto it = g_fds.find(fd);
  if (it == g_fds.end()) return __real_posix_fallocate(fd, off, len);
  int err = transient(K_FTRUNCATE);
  if (!err && it->second.policy == P_FULL) { err = ENOSPC; g_st.policy_failures++; }
  if (err) { g_st.trace += strf("posix_fallocate=%s ", errname(err)); return err; }   // returns the error number, errno untouched
  g_st.trace += "posix_fallocate=ok ";
  return __real_posix_fallocate(fd, off, len);
}
int __real_fallocate(int fd, int mode, off_t off, off_t len);
int __wrap_fallocate(int fd, int mode, off_t off, off_t len) {
  if (!g_on) return __real_fallocate(fd, mode, off, len);
  auto it = g_fds.find(fd);
  if (it == g_fds.end()) return __real_fallocate(fd, mode, off, len);
  int err = transient(K_FTRUNCATE);
  if (!err && it->second.policy == P_FULL) { err = ENOSPC; g_st.policy_failures++; }
  if (err) { g_st.trace += strf("fallocate=%s ", errname(err)); errno = err; return -1; }
  g_st.trace += "fallocate=ok ";
  return __real_fallocate(fd, mode, off, len);
}

void *__wrap_mmap(void *addr, size_t len, int prot, int flags, int fd, off_t off) {
  if (!g_on) return __real_mmap(addr, len, prot, flags, fd, off);
  bool ours = fd >= 0 && g_fds.count(fd);
  bool anon_exec = fd < 0 && (prot & PROT_EXEC);
  if (!ours && !anon_exec) return __real_mmap(addr, len, prot, flags, fd, off);
  int err = transient(K_MMAP);
  const char *what = ours ? ((prot & PROT_EXEC) ? "x" : "w") : "anon";
  if (!err) {
    if (ours && (prot & PROT_EXEC) && g_fds[fd].policy == P_NOEXEC) { err = EPERM; g_st.policy_failures++; }
    if (anon_exec && !g_execmem) { err = EACCES; g_st.policy_failures++; }
  }
  if (err) { g_st.trace += strf("mmap(%s)=%s ", what, errname(err)); errno = err; return MAP_FAILED; }
  void *p = __real_mmap(addr, len, prot, flags, fd, off);
  if (p == MAP_FAILED) { g_st.trace += strf("mmap(%s)=REALFAIL ", what); return p; }
  g_maps[(uintptr_t)p] = MapInfo{len, ours ? g_fds[fd].id : 0};
  g_gone.erase((uintptr_t)p);
  if (ours) g_fds[fd].live_maps++;
  g_st.maps_created++;
  if (prot & PROT_EXEC) g_st.exec_maps_ok++;
  g_st.trace += strf("mmap(%s)=ok ", what);
  return p;
}

int __wrap_munmap(void *addr, size_t len) {
  if (g_on) {
    auto it = g_maps.find((uintptr_t)addr);
    if (it != g_maps.end()) {
      for (auto &kv : g_fds) if (kv.second.id == it->second.fd_id && kv.second.live_maps > 0) kv.second.live_maps--;
      g_maps.erase(it); g_st.maps_removed++; g_st.trace += "munmap ";
      g_gone.insert((uintptr_t)addr);
    } else if (g_gone.count((uintptr_t)addr)) {
      // a range this seam handed out and that was unmapped already: whatever lives there now (in a real
      // process: another thread's mapping made in between) is not the caller's to unmap.  Counted, not executed.
      g_double_munmaps++;
      g_st.trace += "munmap(again!) ";
      return 0;
    }
  }
  return __real_munmap(addr, len);
}

int __wrap_close(int fd) {
  if (g_on) {
    auto it = g_fds.find(fd);
    if (it != g_fds.end()) { g_fds.erase(it); g_st.fds_closed++; g_st.trace += "close "; }
  }
  return __real_close(fd);
}

}  // extern "C"
