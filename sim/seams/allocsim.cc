// Allocator seam for the ASan variant: link-time wrappers around the malloc
// family as referenced by liborc objects.  Gives (a) seeded poison of fresh
// memory, (b) exact accounting of blocks obtained through these entry points
// (that is: by liborc, the harness itself allocates through operator new).
#include "allocsim.h"

#include <malloc.h>
#include <stdlib.h>
#include <string.h>

extern "C" {
void *__real_malloc(size_t n);
void *__real_calloc(size_t a, size_t b);
void *__real_realloc(void *p, size_t n);
void __real_free(void *p);
char *__real_strdup(const char *s);
}

namespace sim {
namespace alloc {

static const size_t TABLE = 1u << 18;
// pointers are stored complemented so that LeakSanitizer does not see this
// table as a reference to the blocks it tracks
struct Ent { uintptr_t p; size_t n; };
static inline uintptr_t enc(void *p) { return ~(uintptr_t)p; }
static const uintptr_t TOMB = 1;
static Ent g_tab[TABLE];
static size_t g_live_bytes = 0, g_live_blocks = 0, g_total_allocs = 0;
static bool g_poison = false;
static uint64_t g_poison_state = 0x12345;
static bool g_track = true;

static inline size_t slot(void *p) { return ((uintptr_t)p >> 4) * 0x9e3779b97f4a7c15ULL >> (64 - 18); }

static void track(void *p, size_t n) {
  if (!p || !g_track) return;
  size_t i = slot(p);
  for (size_t k = 0; k < TABLE; k++, i = (i + 1) & (TABLE - 1)) {
    if (g_tab[i].p == 0 || g_tab[i].p == TOMB) {
      g_tab[i].p = enc(p); g_tab[i].n = n;
      g_live_bytes += n; g_live_blocks++; g_total_allocs++;
      return;
    }
  }
}
static bool untrack(void *p, size_t *n_out = nullptr) {
  if (!p) return false;
  size_t i = slot(p);
  for (size_t k = 0; k < TABLE; k++, i = (i + 1) & (TABLE - 1)) {
    if (g_tab[i].p == 0) return false;
    if (g_tab[i].p == enc(p)) {
      g_live_bytes -= g_tab[i].n; g_live_blocks--;
      if (n_out) *n_out = g_tab[i].n;
      g_tab[i].p = TOMB;
      return true;
    }
  }
  return false;
}
static void poison(void *p, size_t n) {
  if (!g_poison || !p) return;
  unsigned char *c = (unsigned char *)p;
  uint64_t v = splitmix64(g_poison_state);
  for (size_t i = 0; i < n; i++) { c[i] = (unsigned char)(v >> ((i & 7) * 8)); if ((i & 7) == 7) v = v * 6364136223846793005ULL + 1442695040888963407ULL; }
}

void set_poison(bool on, uint64_t seed) { g_poison = on; g_poison_state = seed; }
size_t live_bytes() { return g_live_bytes; }
size_t live_blocks() { return g_live_blocks; }
size_t total_allocs() { return g_total_allocs; }

}  // namespace alloc
}  // namespace sim

using namespace sim::alloc;

extern "C" {
void *__wrap_malloc(size_t n) {
  void *p = __real_malloc(n);
  poison(p, n);
  track(p, n);
  return p;
}
void *__wrap_calloc(size_t a, size_t b) {
  void *p = __real_calloc(a, b);
  track(p, a * b);
  return p;
}
void *__wrap_realloc(void *old, size_t n) {
  size_t oldn = 0;
  bool had = untrack(old, &oldn);
  void *p = __real_realloc(old, n);
  if (!p) { if (had) track(old, oldn); return p; }
  if (n > oldn && (had || !old)) poison((char *)p + oldn, n - oldn);
  track(p, n);
  return p;
}
void __wrap_free(void *p) {
  untrack(p);
  __real_free(p);
}
char *__wrap_strdup(const char *s) {
  char *p = __real_strdup(s);
  track(p, p ? strlen(p) + 1 : 0);
  return p;
}
}
