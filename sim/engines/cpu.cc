// cpusim: one run = one simulated boot.  The CPU (cpuid leaves, XCR0) and the
// environment are chosen by the plan; everything from cpuid decoding to target
// registration, default-target choice and compilation is the real library.
// Serves C19.
#include "../core/sim.h"
#include "../core/orcrun.h"
#include "../seams/filesim.h"

#include <cpuid.h>

namespace sim {
namespace {

struct Cpu {
  std::string vendor = "intel";
  unsigned maxleaf = 7, l1ecx = 0, l1edx = 0, l7ebx = 0, extmax = 0x80000008u, e1ecx = 0, e1edx = 0, xcr0 = 7;
};

static unsigned vendor_code(const std::string &v) {
  auto code = [](const char *s) { return (unsigned)s[0] | ((unsigned)s[1] << 8) | ((unsigned)s[2] << 16) | ((unsigned)s[3] << 24); };
  if (v == "intel") return code("ntel");
  if (v == "amd") return code("cAMD");
  if (v == "hygon") return code("uine");
  return code("auls");  // CentaurHauls: the generic path
}

// bits
enum { EDX_MMX = 1u << 23, EDX_SSE = 1u << 25, EDX_SSE2 = 1u << 26 };
enum { ECX_SSE3 = 1u << 0, ECX_SSSE3 = 1u << 9, ECX_SSE41 = 1u << 19, ECX_SSE42 = 1u << 20, ECX_XSAVE = 1u << 26,
       ECX_OSXSAVE = 1u << 27, ECX_AVX = 1u << 28 };
enum { EBX7_AVX2 = 1u << 5 };

static const char *kTargets[] = {"c", "c64x-c", "mmx", "sse", "avx", "altivec", "neon", "mips"};

static std::vector<std::string> cpu_gen(const GenArgs &ga) {
  Rng r = stream(ga.seed, ST_SWARM);
  std::vector<std::string> pl;
  pl.push_back("prop " + ga.prop);
  pl.push_back("engine cpu");
  pl.push_back(strf("seed %llu", (unsigned long long)ga.seed));
  Cpu c;
  static const char *vendors[] = {"intel", "intel", "amd", "hygon", "other"};
  c.vendor = vendors[r.below(5)];
  int shape = (int)r.below(10);
  static const unsigned leaves[] = {0, 1, 1, 7, 7, 7, 13};
  c.maxleaf = leaves[r.below(7)];
  auto coin = [&](int num, int den) { return r.chance(num, den); };
  if (shape < 4) {
    // every bit independent
    if (coin(3, 4)) c.l1edx |= EDX_MMX;
    if (coin(3, 4)) c.l1edx |= EDX_SSE;
    if (coin(3, 4)) c.l1edx |= EDX_SSE2;
    if (coin(1, 2)) c.l1ecx |= ECX_SSE3;
    if (coin(1, 2)) c.l1ecx |= ECX_SSSE3;
    if (coin(1, 2)) c.l1ecx |= ECX_SSE41;
    if (coin(1, 2)) c.l1ecx |= ECX_SSE42;
    if (coin(3, 4)) c.l1ecx |= ECX_XSAVE;
    if (coin(3, 4)) c.l1ecx |= ECX_OSXSAVE;
    if (coin(3, 4)) c.l1ecx |= ECX_AVX;
    if (coin(3, 4)) c.l7ebx |= EBX7_AVX2;
    c.xcr0 = (unsigned)r.below(8);
    if (coin(1, 2)) c.xcr0 |= 6;
  } else if (shape < 8) {
    // realistic nested generations with one thing knocked out
    int gen = (int)r.below(8);  // 0 mmx-only .. 7 avx2
    c.l1edx = EDX_MMX;
    if (gen >= 1) c.l1edx |= EDX_SSE | EDX_SSE2;
    if (gen >= 2) c.l1ecx |= ECX_SSE3;
    if (gen >= 3) c.l1ecx |= ECX_SSSE3;
    if (gen >= 4) c.l1ecx |= ECX_SSE41;
    if (gen >= 5) c.l1ecx |= ECX_SSE42;
    if (gen >= 6) c.l1ecx |= ECX_XSAVE | ECX_OSXSAVE | ECX_AVX;
    if (gen >= 7) c.l7ebx |= EBX7_AVX2;
    c.xcr0 = gen >= 6 ? 7 : 3;
    c.maxleaf = gen >= 6 ? 13 : gen >= 1 ? 7 : 1;
    switch (r.below(8)) {
      case 0: c.l1ecx &= ~ECX_OSXSAVE; break;           // OS did not enable XSAVE
      case 1: c.xcr0 &= ~4u; break;                      // YMM state disabled
      case 2: c.xcr0 &= ~2u; break;                      // XMM state disabled (GDS mitigation)
      case 3: c.l7ebx &= ~EBX7_AVX2; break;
      case 4: c.l1ecx &= ~ECX_AVX; break;
      case 5: c.maxleaf = 1; break;                      // hypervisor caps the leaf count
      case 6: c.l1ecx &= ~ECX_XSAVE; break;
      default: break;
    }
  } else {
    // all features
    c.l1edx = EDX_MMX | EDX_SSE | EDX_SSE2;
    c.l1ecx = ECX_SSE3 | ECX_SSSE3 | ECX_SSE41 | ECX_SSE42 | ECX_XSAVE | ECX_OSXSAVE | ECX_AVX;
    c.l7ebx = EBX7_AVX2;
    c.xcr0 = 7;
    c.maxleaf = 13;
  }
  // junk in unrelated bits must not matter
  if (coin(1, 2)) { c.l1ecx |= (unsigned)r.next() & 0x05fc71fe & ~(ECX_SSSE3 | ECX_SSE41 | ECX_SSE42 | ECX_XSAVE | ECX_OSXSAVE | ECX_AVX); }
  if (coin(1, 2)) { c.l1edx |= (unsigned)r.next() & ~(EDX_MMX | EDX_SSE | EDX_SSE2); }
  if (coin(1, 2)) { c.l7ebx |= (unsigned)r.next() & ~EBX7_AVX2; }
  c.extmax = coin(1, 5) ? 0 : coin(1, 2) ? 0x80000008u : 0x80000001u;
  if (coin(1, 2)) c.e1ecx = (unsigned)r.next();
  if (coin(1, 2)) c.e1edx = (unsigned)r.next();
  pl.push_back(strf("cpu vendor=%s maxleaf=%u l1ecx=%#x l1edx=%#x l7ebx=%#x extmax=%#x e1ecx=%#x e1edx=%#x xcr0=%#x", c.vendor.c_str(),
                    c.maxleaf, c.l1ecx, c.l1edx, c.l7ebx, c.extmax, c.e1ecx, c.e1edx, c.xcr0));
  // the processor's name says nothing about what it can execute (underscores stand for blanks)
  static const char *brands[] = {"-", "-", "Intel(R)_Xeon(R)_Platinum_8375C_CPU_@_2.90GHz", "AMD_EPYC_7B12", "Virtual_CPU_a7769a6388d5",
                                 "QEMU_Virtual_CPU_version_2.5+", "VirtualApple_@_2.50GHz_processor", "Common_KVM_processor", "Genuine_Intel(R)_CPU_0000"};
  pl.back() += strf(" brand=%s", brands[r.below(9)]);
  // environment
  std::string backend = "-", target = "-";
  int e = (int)r.below(10);
  auto name = [&]() -> std::string {
    int k = (int)r.below(10);
    if (k < 8 && r.chance(1, 8)) {
      // the same name in another spelling is another name (or, if a library chose to fold case, still not a
      // licence to use a backend that cannot run here)
      std::string n = kTargets[k];
      int how = (int)r.below(3);
      for (size_t i = 0; i < n.size(); i++) if (how == 0 || (how == 1 && i == 0) || (how == 2 && (i & 1))) n[i] = (char)toupper((unsigned char)n[i]);
      return n;
    }
    if (k < 8) return r.chance(1, 12) ? "xtgt0" : kTargets[k];   // xtgt0: a backend the application registered (never executable)
    return k == 8 ? (r.chance(1, 2) ? "nosuchtarget" : "EMPTY") : "SSE";   // EMPTY: the variable is set to the empty string
  };
  if (e < 3) backend = name();
  else if (e < 6) target = name();
  else if (e == 6) { backend = name(); target = name(); }
  // ORC_CODE may switch single features off ("-sse3", "-avx2", ...): whatever it names, no feature the CPU
  // lacks may appear, and nothing the CPU cannot execute may become executable
  static const char *codes[] = {"-", "-", "-", "debug", "-avx2", "-avx", "-sse3,-ssse3", "-sse4a,-sse5", "-sse41,-sse42", "-sse2", "debug,-avx2"};
  std::string code = codes[r.below(11)];
  pl.push_back(strf("env ORC_BACKEND=%s ORC_TARGET=%s ORC_CODE=%s", backend.c_str(), target.c_str(), code.c_str()));
  static const char *progs[] = {"fixed:addw", "fixed:subb", "fixed:mulll", "fixed:copyb"};
  pl.push_back(strf("prog spec=%s ds=%llu", progs[r.below(4)], (unsigned long long)(r.next() >> 20)));
  // the application may register backends of its own (up to the table's capacity), and the library has helpers
  // of its own (orc_memcpy) that are compiled through the default path on their first call
  pl.push_back(strf("app targets=%d helper=%d", (int)r.below(3), (int)r.chance(1, 2)));
  return pl;
}

struct Model {
  bool mmx = false, sse = false, avx = false;
  unsigned sse_allowed = 0, mmx_allowed = 0;
  std::string def;  // "" = none
};

static Model model_of(const Cpu &c, bool debug) {
  Model m;
  bool l1 = c.maxleaf >= 1;
  unsigned ecx = l1 ? c.l1ecx : 0, edx = l1 ? c.l1edx : 0;
  unsigned ebx7 = c.maxleaf >= 7 ? c.l7ebx : 0;
  bool amd = c.vendor == "amd" || c.vendor == "hygon";
  bool ext1 = amd && c.extmax >= 0x80000001u;
  m.mmx = edx & EDX_MMX;
  m.sse = edx & EDX_SSE2;
  bool os_avx = (ecx & ECX_XSAVE) && (ecx & ECX_OSXSAVE) && (c.xcr0 & 6) == 6;
  bool avx1 = os_avx && (ecx & ECX_AVX);
  m.avx = avx1 && (ebx7 & EBX7_AVX2);
  unsigned s = ORC_TARGET_SSE_64BIT | ORC_TARGET_SSE_SHORT_JUMPS;
  if (debug) s |= ORC_TARGET_SSE_FRAME_POINTER;
  if (edx & EDX_SSE2) s |= ORC_TARGET_SSE_SSE2;
  if (ecx & ECX_SSE3) s |= ORC_TARGET_SSE_SSE3;
  if (ecx & ECX_SSSE3) s |= ORC_TARGET_SSE_SSSE3;
  if (ecx & ECX_SSE41) s |= ORC_TARGET_SSE_SSE4_1;
  if (ecx & ECX_SSE42) s |= ORC_TARGET_SSE_SSE4_2;
  if (ext1 && (c.e1ecx & (1u << 6))) s |= ORC_TARGET_SSE_SSE4A;
  if (ext1 && (c.e1ecx & (1u << 11))) s |= ORC_TARGET_SSE_SSE5;
  if (avx1) s |= ORC_TARGET_AVX_AVX;
  if (m.avx) s |= ORC_TARGET_AVX_AVX2;
  m.sse_allowed = s;
  unsigned x = ORC_TARGET_MMX_64BIT | ORC_TARGET_MMX_SHORT_JUMPS;
  if (debug) x |= ORC_TARGET_MMX_FRAME_POINTER;
  if (edx & EDX_MMX) x |= ORC_TARGET_MMX_MMX;
  if ((edx & (EDX_SSE | EDX_SSE2)) || (ext1 && (c.e1edx & (1u << 22)))) x |= ORC_TARGET_MMX_MMXEXT;
  if (ext1 && (c.e1edx & (1u << 31))) x |= ORC_TARGET_MMX_3DNOW;
  if (ext1 && (c.e1edx & (1u << 30))) x |= ORC_TARGET_MMX_3DNOWEXT;
  if (ecx & ECX_SSSE3) x |= ORC_TARGET_MMX_SSSE3;
  if (ecx & ECX_SSE41) x |= ORC_TARGET_MMX_SSE4_1;
  if (ecx & ECX_SSE42) x |= ORC_TARGET_MMX_SSE4_2;
  m.mmx_allowed = x;
  m.def = m.avx ? "avx" : m.sse ? "sse" : m.mmx ? "mmx" : "";
  return m;
}

static bool model_exec(const Model &m, const std::string &t) {
  return t == "mmx" ? m.mmx : t == "sse" ? m.sse : t == "avx" ? m.avx : false;
}

static bool host_supports(const Cpu &c) {
  unsigned a, b, cc, d;
  if (!__get_cpuid(1, &a, &b, &cc, &d)) return false;
  unsigned need_c = c.l1ecx & (ECX_SSE3 | ECX_SSSE3 | ECX_SSE41 | ECX_SSE42 | ECX_AVX);
  unsigned need_d = c.l1edx & (EDX_MMX | EDX_SSE | EDX_SSE2);
  if ((cc & need_c) != need_c || (d & need_d) != need_d) return false;
  if (c.l7ebx & EBX7_AVX2) {
    unsigned a7, b7, c7, d7;
    if (!__get_cpuid_count(7, 0, &a7, &b7, &c7, &d7) || !(b7 & EBX7_AVX2)) return false;
  }
  return true;
}

static bool listing_is_for(const std::string &t, const char *asmc) {
  if (!asmc) return false;
  std::string s = asmc;
  bool ymm = s.find("%ymm") != std::string::npos, xmm = s.find("%xmm") != std::string::npos,
       mm = s.find("%mm") != std::string::npos;
  if (t == "avx") return ymm;
  if (t == "sse") return xmm && !ymm;
  if (t == "mmx") return mm && !xmm && !ymm;
  return true;
}

static unsigned xt_flags(void) { return 0; }
static OrcTarget g_xt[2];

static void cpu_run(const std::vector<std::string> &plan, Child &c) {
  Cpu cpu;
  std::vector<std::string> env_w, prog_w, app_w, w_cpu;
  for (auto &l : plan) {
    auto w = words(l);
    if (w.empty()) continue;
    if (w[0] == "cpu") {
      w_cpu = w;
      cpu.vendor = kv(w, "vendor", "intel");
      cpu.maxleaf = kvu(w, "maxleaf"); cpu.l1ecx = kvu(w, "l1ecx"); cpu.l1edx = kvu(w, "l1edx");
      cpu.l7ebx = kvu(w, "l7ebx"); cpu.extmax = kvu(w, "extmax"); cpu.e1ecx = kvu(w, "e1ecx");
      cpu.e1edx = kvu(w, "e1edx"); cpu.xcr0 = kvu(w, "xcr0");
    } else if (w[0] == "env") env_w = w;
    else if (w[0] == "prog") prog_w = w;
    else if (w[0] == "app") app_w = w;
  }
  std::string backend = kv(env_w, "ORC_BACKEND", "-"), otarget = kv(env_w, "ORC_TARGET", "-"), code = kv(env_w, "ORC_CODE", "-");
  setenv("ORC_VERIF_CPUID", strf("%x:%x:%x:%x:%x:%x:%x:%x:%x", vendor_code(cpu.vendor), cpu.maxleaf, cpu.l1ecx, cpu.l1edx, cpu.l7ebx,
                                 cpu.extmax, cpu.e1ecx, cpu.e1edx, cpu.xcr0).c_str(), 1);
  {
    std::string brand = kv(w_cpu, "brand", "-");
    for (auto &ch : brand) if (ch == '_') ch = ' ';
    if (brand != "-") setenv("ORC_VERIF_CPUID_BRAND", brand.c_str(), 1); else unsetenv("ORC_VERIF_CPUID_BRAND");
  }
  if (backend == "EMPTY") backend = "";
  if (otarget == "EMPTY") otarget = "";
  if (backend != "-") setenv("ORC_BACKEND", backend.c_str(), 1); else unsetenv("ORC_BACKEND");
  if (otarget != "-") setenv("ORC_TARGET", otarget.c_str(), 1); else unsetenv("ORC_TARGET");
  if (code != "-") setenv("ORC_CODE", code.c_str(), 1); else unsetenv("ORC_CODE");
  unsetenv("ORC_DEBUG");
  unsetenv("XDG_RUNTIME_DIR"); unsetenv("HOME"); unsetenv("TMPDIR");
  fs::reset();
  fs::enable(true);
  fs::set_dir("/tmp", fs::P_OK);
  bool debug = code.find("debug") != std::string::npos;
  Model m = model_of(cpu, debug);
  orc_init();
  install_debug_sink();
  c.event("boot vendor=%s maxleaf=%u model: mmx=%d sse=%d avx=%d default=%s", cpu.vendor.c_str(), cpu.maxleaf, m.mmx, m.sse, m.avx,
          m.def.c_str());
  c.state(fnv(strf("%d%d%d|%s|%s", m.mmx, m.sse, m.avx, backend.c_str(), otarget.c_str())));

  // ---- backends the application registers itself (never executable, so they must change nothing else) ----
  {
    int known = 0;
    for (auto tn : {"c", "c64x-c", "mmx", "sse", "avx", "altivec", "neon", "mips", "arm", "powerpc", "riscv", "lsx", "lasx"})
      if (orc_target_get_by_name(tn)) known++;
    int want = (int)kvi(app_w, "targets", 0);
    static const char *xn[2] = {"xtgt0", "xtgt1"};
    int nx = 0;
    for (int i = 0; i < want && i < 2 && known + nx < ORC_N_TARGETS; i++) {
      memset(&g_xt[i], 0, sizeof g_xt[i]);
      g_xt[i].name = xn[i];
      g_xt[i].executable = FALSE;
      g_xt[i].get_default_flags = xt_flags;
      orc_target_register(&g_xt[i]);
      nx++;
      c.count("boot.application_targets_registered");
    }
    if (known + nx == ORC_N_TARGETS) c.count("probe.target_table_exactly_full");
    for (int i = 0; i < nx; i++)
      if (orc_target_get_by_name(xn[i]) != &g_xt[i])
        c.violation("byname", "registered-target-not-found-by-name", strf("orc_target_get_by_name(\"%s\") does not return the backend the application registered (%d built-in + %d registered, capacity %d)", xn[i], known, nx, ORC_N_TARGETS));
  }

  // ---- what the library registered ---------------------------------------------
  for (auto tn : kTargets) {
    OrcTarget *t = orc_target_get_by_name(tn);
    if (!t) { c.violation("registry", strf("target-missing:%s", tn), strf("target '%s' is not registered", tn)); continue; }
    std::string name = tn;
    unsigned flags = orc_target_get_default_flags(t);
    c.event("target %s executable=%d flags=%#x", tn, t->executable, flags);
    bool mexec = model_exec(m, name);
    if (t->executable && !mexec)
      c.violation("executable", strf("marked-executable-without-cpu-support:%s", tn),
                  strf("target %s is marked executable but the presented CPU/OS does not support it (l1ecx=%#x l1edx=%#x l7ebx=%#x maxleaf=%u xcr0=%#x)", tn,
                       cpu.l1ecx, cpu.l1edx, cpu.l7ebx, cpu.maxleaf, cpu.xcr0));
    // (a feature switched off through ORC_CODE=-<feature> may legitimately make a supported backend non-executable)
    bool features_switched_off = code.find("-s") != std::string::npos || code.find("-a") != std::string::npos;
    if (!t->executable && mexec && !features_switched_off)
      c.violation("executable", strf("supported-backend-not-executable:%s", tn),
                  strf("target %s is supported by the presented CPU/OS but is not marked executable", tn));
    // only the feature bits this model knows are judged: a flag bit introduced later is not "a feature the CPU lacks"
    const unsigned sse_known = ORC_TARGET_SSE_SSE2 | ORC_TARGET_SSE_SSE3 | ORC_TARGET_SSE_SSSE3 | ORC_TARGET_SSE_SSE4_1 | ORC_TARGET_SSE_SSE4_2 |
                               ORC_TARGET_SSE_SSE4A | ORC_TARGET_SSE_SSE5 | ORC_TARGET_AVX_AVX | ORC_TARGET_AVX_AVX2;
    const unsigned mmx_known = ORC_TARGET_MMX_MMX | ORC_TARGET_MMX_MMXEXT | ORC_TARGET_MMX_3DNOW | ORC_TARGET_MMX_3DNOWEXT | ORC_TARGET_MMX_SSSE3 |
                               ORC_TARGET_MMX_SSE4_1 | ORC_TARGET_MMX_SSE4_2;
    if (name == "sse" || name == "avx") flags &= sse_known | m.sse_allowed;
    if (name == "mmx") flags &= mmx_known | m.mmx_allowed;
    if (name == "sse" || name == "avx") {
      if (flags & ~m.sse_allowed)
        c.violation("flags", strf("flags-claim-absent-feature:%s", tn),
                    strf("default flags of %s are %#x, bits %#x are not justified by the presented CPU (allowed %#x)", tn, flags, flags & ~m.sse_allowed,
                         m.sse_allowed));
    } else if (name == "mmx") {
      if (flags & ~m.mmx_allowed)
        c.violation("flags", "flags-claim-absent-feature:mmx",
                    strf("default flags of mmx are %#x, bits %#x are not justified by the presented CPU (allowed %#x)", flags, flags & ~m.mmx_allowed, m.mmx_allowed));
    }
  }

  // ---- default target --------------------------------------------------------------
  auto tname = [](OrcTarget *t) { return std::string(t ? t->name : ""); };
  // (a) the variable the code reads and (b) the documented one are judged separately
  std::string expect = m.def;
  auto is_target_name = [](const std::string &n) { for (auto t : kTargets) if (n == t) return true; return false; };
  bool bk_exists = is_target_name(backend), tg_exists = is_target_name(otarget);
  OrcTarget *def = orc_target_get_default();
  if (orc_target_get_by_name(nullptr) != def)
    c.violation("byname", "null-name-is-not-default", "orc_target_get_by_name(NULL) does not return the default target");
  c.event("default=%s (model %s) ORC_BACKEND=%s ORC_TARGET=%s", tname(def).c_str(), m.def.c_str(), backend.c_str(), otarget.c_str());
  c.count("boot.default_" + (tname(def).empty() ? std::string("none") : tname(def)));
  if (backend == "-" && otarget == "-" && code.find("-s") == std::string::npos && code.find("-a") == std::string::npos) {
    // no override of any kind: the default is the best backend this CPU supports
    if (tname(def) != expect)
      c.violation("default", "default-not-best-supported", strf("default target is '%s' but the best backend this CPU supports is '%s'", tname(def).c_str(), expect.c_str()));
  }
  if (tg_exists && model_exec(m, otarget)) {
    // the documented override names a backend this CPU can execute: it must be the one used
    if (tname(def) != otarget) {
      c.count("probe.documented_override_ignored");
      c.violation("override", "documented-ORC_TARGET-ignored",
                  strf("ORC_TARGET=%s names an executable backend but the default target is '%s' (doc/running.xml documents ORC_TARGET)", otarget.c_str(),
                       tname(def).c_str()), true);
    } else c.count("probe.documented_override_honoured");
  }
  // (ORC_BACKEND is what the pinned code reads but is documented nowhere: nothing is
  // demanded of it except the safety clause below, which holds for every environment.)
  (void)bk_exists;
  if ((backend != "-" && !bk_exists) || (otarget != "-" && !tg_exists)) c.count("probe.unknown_override_name");

  // ---- by-name and default-path compilation ------------------------------------------
  std::string spec = kv(prog_w, "spec", "fixed:addw");
  uint64_t ds = kvu(prog_w, "ds", 1);
  bool can_run_here = host_supports(cpu);
  for (auto tn : {"mmx", "sse", "avx"}) {
    OrcTarget *t = orc_target_get_by_name(tn);
    if (!t) continue;
    ProgMeta meta;
    OrcProgram *p = build_program(spec, "byname", &meta);
    int res = orc_program_compile_for_target(p, t);
    c.event("compile by name %s: %#x", tn, res);
    if (ORC_COMPILE_RESULT_IS_SUCCESSFUL(res)) {
      if (!listing_is_for(tn, orc_program_get_asm_code(p)))
        c.violation("byname", strf("named-target-not-used:%s", tn), strf("compiling for target '%s' by name produced a listing for another backend", tn));
      c.count(std::string("compile.byname_ok.") + tn);
    }
    orc_program_free(p);
  }
  {
    ProgMeta meta, tmeta;
    OrcProgram *p = build_program(spec, "dflt", &meta);
    OrcProgram *twin = build_program(spec, "dflt_twin", &tmeta);
    orc_program_compile_full(twin, nullptr, 0);
    OrcTarget *used = orc_target_get_default();
    int res = orc_program_compile(p);
    bool ok = ORC_COMPILE_RESULT_IS_SUCCESSFUL(res);
    c.event("default-path compile: %#x target=%s", res, tname(used).c_str());
    if (ok) {
      c.count("compile.default_ok");
      std::string un = tname(used);
      if (!model_exec(m, un)) {
        c.count("probe.default_path_returned_unrunnable_code");
        c.violation("unrunnable", strf("default-compile-for-non-executable-target:%s", un.c_str()),
                    strf("orc_program_compile() succeeded with code for '%s', which this CPU cannot execute (ORC_BACKEND=%s ORC_TARGET=%s; model mmx=%d sse=%d avx=%d)",
                         un.c_str(), backend.c_str(), otarget.c_str(), m.mmx, m.sse, m.avx), true);
      } else if (can_run_here) {
        if (!listing_is_for(un, orc_program_get_asm_code(p)))
          c.violation("byname", "default-listing-for-other-backend", strf("default target is '%s' but the listing is for another backend", un.c_str()));
        RunData a, b;
        make_inputs(meta, ds, 0, a);
        make_inputs(meta, ds, 0, b);
        run_with(p, nullptr, meta, RUN_EXEC, a);
        run_with(twin, nullptr, meta, RUN_EMULATE, b);
        std::string d = compare_outputs(meta, a, b);
        c.event("ran default code out=%016llx", (unsigned long long)hash_outputs(meta, a));
        c.count("run.default_native");
        if (!d.empty()) c.violation("result", "default-code-wrong-result", "code from the default path computes wrong results: " + d);
      }
    } else if (!ORC_COMPILE_RESULT_IS_FATAL(res)) {
      // fallback: must still be runnable through emulation
      RunData a, b;
      make_inputs(meta, ds, 0, a);
      make_inputs(meta, ds, 0, b);
      run_with(p, nullptr, meta, RUN_EXEC, a);
      run_with(twin, nullptr, meta, RUN_EMULATE, b);
      std::string d = compare_outputs(meta, a, b);
      c.count("run.default_fallback");
      if (!d.empty()) c.violation("result", "fallback-wrong-result", "fallback after a declined default compile computes wrong results: " + d);
    }
    orc_program_free(p);
    orc_program_free(twin);
  }

  // ---- the library's own helper, compiled through the default path on its first call -----------------
  if (kvi(app_w, "helper", 0) && can_run_here && def && model_exec(m, tname(def))) {
    Layout before, after;
    walk_codemem(before);
    unsigned char src[96], dst[96];
    for (int i = 0; i < 96; i++) { src[i] = (unsigned char)(i * 37 + 11); dst[i] = 0x5a; }
    orc_memcpy(dst + 3, src + 5, 61);
    walk_codemem(after);
    if (memcmp(dst + 3, src + 5, 61) || dst[2] != 0x5a || dst[64] != 0x5a)
      c.violation("result", "helper-wrong-result", "orc_memcpy copied wrongly");
    // the code it was compiled to: the used chunk that was not there before
    std::vector<const uint8_t *> fresh;
    std::vector<int> fresh_size;
    for (size_t ri = 0; ri < after.regions.size(); ri++)
      for (auto &ch : after.regions[ri].chunks) {
        if (!ch.used) continue;
        bool was = false;
        if (ri < before.regions.size()) for (auto &b : before.regions[ri].chunks) if (b.used && b.offset == ch.offset) was = true;
        if (!was) { fresh.push_back(after.regions[ri].write_ptr + ch.offset); fresh_size.push_back(ch.size); }
      }
    if (fresh.size() == 1) {
      auto code_for = [&](OrcTarget *t, bool dflt, std::vector<uint8_t> &out) {
        ProgMeta mm;
        OrcProgram *q = build_program("fixed:copyb", "helper_twin", &mm);   // orc_memcpy is "copyb d1, s1" on bytes
        int r2 = dflt ? orc_program_compile(q) : orc_program_compile_for_target(q, t);
        out.clear();
        if (ORC_COMPILE_RESULT_IS_SUCCESSFUL(r2) && q->orccode && q->orccode->chunk) out.assign(q->orccode->code, q->orccode->code + q->orccode->code_size);
        orc_program_free(q);
      };
      auto same = [&](const std::vector<uint8_t> &v) { return !v.empty() && (int)v.size() <= fresh_size[0] && !memcmp(v.data(), fresh[0], v.size()); };
      std::vector<uint8_t> dcode, tcode;
      code_for(nullptr, true, dcode);
      if (same(dcode)) c.count("probe.library_helper_compiled_like_the_default_path");
      else {
        std::string other;
        for (auto tn : {"mmx", "sse", "avx"}) {
          OrcTarget *t = orc_target_get_by_name(tn);
          if (!t || t == def) continue;
          code_for(t, false, tcode);
          if (same(tcode)) other = tn;
        }
        if (!other.empty())
          c.violation("byname", strf("library-helper-compiled-for-other-backend:%s", other.c_str()),
                      strf("orc_memcpy's code is what compiling its program for '%s' gives, but the default target is '%s' (ORC_BACKEND=%s)", other.c_str(), tname(def).c_str(), backend.c_str()));
        else c.count("probe.library_helper_code_not_attributable");
      }
    } else c.count("probe.library_helper_left_no_single_new_chunk");
  }
}

static bool cpu_deletable(const std::string &) { return false; }

static std::vector<std::string> cpu_simplify(const std::string &line) {
  std::vector<std::string> out;
  auto w = words(line);
  if (w.empty()) return out;
  auto with = [&](const char *key, const std::string &val) {
    std::string s;
    for (auto &x : w) s += (s.empty() ? "" : " ") + (starts(x, (std::string(key) + "=").c_str()) ? std::string(key) + "=" + val : x);
    if (s != line) out.push_back(s);
  };
  if (w[0] == "env") { with("ORC_BACKEND", "-"); with("ORC_TARGET", "-"); with("ORC_CODE", "-"); }
  if (w[0] == "cpu") {
    with("vendor", "intel"); with("e1ecx", "0"); with("e1edx", "0"); with("extmax", "0");
    // clear junk bits one word at a time, then single feature bits
    unsigned ecx = kvu(w, "l1ecx"), edx = kvu(w, "l1edx"), ebx = kvu(w, "l7ebx");
    unsigned kc = ECX_SSE3 | ECX_SSSE3 | ECX_SSE41 | ECX_SSE42 | ECX_XSAVE | ECX_OSXSAVE | ECX_AVX, kd = EDX_MMX | EDX_SSE | EDX_SSE2;
    with("l1ecx", strf("%#x", ecx & kc)); with("l1edx", strf("%#x", edx & kd)); with("l7ebx", strf("%#x", ebx & EBX7_AVX2));
    for (unsigned bit = 0; bit < 32; bit++) {
      if (ecx & (1u << bit)) with("l1ecx", strf("%#x", ecx & ~(1u << bit)));
      if (edx & (1u << bit)) with("l1edx", strf("%#x", edx & ~(1u << bit)));
    }
  }
  if (w[0] == "prog") with("spec", "fixed:addw");
  return out;
}

const Engine cpu = {"cpu", cpu_gen, cpu_run, cpu_deletable, cpu_simplify, nullptr};

}  // namespace

const Engine *const cpu_engine = &cpu;

}  // namespace sim
