// regsim: registration histories of application opcode sets and rule sets,
// interleaved with compiles/runs/emulations, checked against a registry model.
// Serves C20.
#include "../core/sim.h"
#include "../core/orcrun.h"
#include "../seams/filesim.h"
#include "../seams/allocsim.h"

extern "C" {
#include <orc/orcx86.h>
#include <orc/orcx86insn.h>
#include <orc/orcsse.h>
#include <orc/orcmmx.h>
#include <orc/orcavx.h>
}

#include <utility>

namespace sim {
namespace {

// ---------------------------------------------------------------------------
// extension opcode semantics (same arithmetic as a built-in, own functions)
// ---------------------------------------------------------------------------
enum Kind { K_ADD = 0, K_SUB, K_XOR, K_AND, K_OR, K_COPY, K_NKINDS };
static const char *kKindName[] = {"add", "sub", "xor", "and", "or", "copy"};
static int kind_from(const std::string &s) {
  for (int k = 0; k < K_NKINDS; k++) if (s == kKindName[k]) return k;
  return K_ADD;
}
static const char *builtin_name(int kind, int size) {
  static const char *t[K_NKINDS][3] = {{"addb", "addw", "addl"}, {"subb", "subw", "subl"}, {"xorb", "xorw", "xorl"},
                                        {"andb", "andw", "andl"}, {"orb", "orw", "orl"}, {"copyb", "copyw", "copyl"}};
  return t[kind][size == 1 ? 0 : size == 2 ? 1 : 2];
}
static uint32_t apply_kind(int kind, uint32_t a, uint32_t b) {
  switch (kind) {
    case K_ADD: return a + b;
    case K_SUB: return a - b;
    case K_XOR: return a ^ b;
    case K_AND: return a & b;
    case K_OR: return a | b;
    default: return a;
  }
}

static const int MAX_EMU = 96, MAX_RULE = 192;
struct EmuInfo { int kind, size; int form; };   // form 0: two temporaries; 1: reads two arrays itself (LOAD); 2: four sources
static EmuInfo g_emu[MAX_EMU];
static unsigned g_emu_hits[MAX_EMU];
struct RuleInfo { int kind, size; char target; };  // target: 's' sse, 'a' avx, 'm' mmx
static RuleInfo g_rule[MAX_RULE];
static unsigned g_rule_hits[MAX_RULE];
static unsigned g_rule_user_mismatch = 0;

static void emu_generic(int id, OrcOpcodeExecutor *ex, int offset, int n) {
  g_emu_hits[id]++;
  const EmuInfo &e = g_emu[id];
  uint8_t *d = (uint8_t *)ex->dest_ptrs[0];
  // an opcode that loads by itself gets the arrays' row pointers and the position within the row
  size_t base = e.form == 1 ? (size_t)offset : 0;
  const uint8_t *a = (const uint8_t *)ex->src_ptrs[0];
  const uint8_t *b = (const uint8_t *)ex->src_ptrs[1];
  for (int i = 0; i < n; i++) {
    uint32_t va = 0, vb = 0;
    memcpy(&va, a + (base + i) * e.size, e.size);
    if (e.kind != K_COPY) memcpy(&vb, b + (base + i) * e.size, e.size);
    uint32_t r = apply_kind(e.kind, va, vb);
    if (e.form == 2) {
      for (int k = 2; k < 4; k++) {
        uint32_t vk = 0;
        memcpy(&vk, (const uint8_t *)ex->src_ptrs[k] + (size_t)i * e.size, e.size);
        r = apply_kind(e.kind, r, vk);
      }
    }
    memcpy(d + (size_t)i * e.size, &r, e.size);
  }
}
template <int ID> static void emu_fn(OrcOpcodeExecutor *ex, int offset, int n) { emu_generic(ID, ex, offset, n); }

static int x86_op(int kind, int size) {
  switch (kind) {
    case K_ADD: return size == 1 ? ORC_X86_paddb : size == 2 ? ORC_X86_paddw : ORC_X86_paddd;
    case K_SUB: return size == 1 ? ORC_X86_psubb : size == 2 ? ORC_X86_psubw : ORC_X86_psubd;
    case K_XOR: return ORC_X86_pxor;
    case K_AND: return ORC_X86_pand;
    default: return ORC_X86_por;
  }
}

static void rule_generic(int id, OrcCompiler *p, void *user, OrcInstruction *insn) {
  g_rule_hits[id]++;
  if ((intptr_t)user != id + 1000) g_rule_user_mismatch++;
  const RuleInfo &r = g_rule[id];
  if (r.target == 'c') {
    // the C backend: the application's rule writes source text; a marker is all the oracle needs (which rule
    // was invoked), the text is never compiled or run here
    orc_compiler_append_code(p, "    /* orcsim application rule %d */\n", id);
    return;
  }
  int src1 = ORC_SRC_ARG(p, insn, 0);
  int dest = ORC_DEST_ARG(p, insn, 0);
  if (r.target == 'a') {
    const int size = p->vars[insn->src_args[0]].size << p->loop_shift;
    int prefix = size >= 32 ? ORC_X86_AVX_VEX256_PREFIX : ORC_X86_AVX_VEX128_PREFIX;
    if (r.kind == K_COPY) {
      if (src1 != dest) orc_vex_emit_cpuinsn_size(p, ORC_X86_movdqa, 32, src1, 0, dest, (OrcX86OpcodePrefix)prefix);
    } else {
      int src2 = ORC_SRC_ARG(p, insn, 1);
      orc_vex_emit_cpuinsn_size(p, x86_op(r.kind, r.size), 32, src1, src2, dest, (OrcX86OpcodePrefix)prefix);
    }
    return;
  }
  int regsize = r.target == 's' ? 16 : 8;
  int mov = r.target == 's' ? ORC_X86_movdqa : ORC_X86_movq_mmx_load;
  if (src1 != dest) orc_x86_emit_cpuinsn_size(p, mov, regsize, src1, dest);
  if (r.kind != K_COPY) {
    int src2 = ORC_SRC_ARG(p, insn, 1);
    orc_x86_emit_cpuinsn_size(p, x86_op(r.kind, r.size), regsize, src2, dest);
  }
}
template <int ID> static void rule_fn(OrcCompiler *p, void *user, OrcInstruction *insn) { rule_generic(ID, p, user, insn); }

template <size_t... I> static const OrcOpcodeEmulateNFunc *emu_table(std::index_sequence<I...>) {
  static const OrcOpcodeEmulateNFunc t[] = {emu_fn<(int)I>...};
  return t;
}
template <size_t... I> static const OrcRuleEmitFunc *rule_table(std::index_sequence<I...>) {
  static const OrcRuleEmitFunc t[] = {rule_fn<(int)I>...};
  return t;
}
static const OrcOpcodeEmulateNFunc *kEmu = emu_table(std::make_index_sequence<MAX_EMU>());
static const OrcRuleEmitFunc *kRule = rule_table(std::make_index_sequence<MAX_RULE>());

// ---------------------------------------------------------------------------
// plan generation
// ---------------------------------------------------------------------------
// Names the application might choose: proper prefixes of built-in names, extensions of
// built-in names, names that are prefixes/extensions of each other, and unrelated ones.
// Each name is used at most once per run (drawn without replacement).
static const char *kExtNames[] = {"add", "ad", "addus", "sub", "xor", "cop", "an", "conv", "mul", "sh", "splat", "swap", "swa", "sel",
                                  "addw2", "addwx", "copyw2", "andl2", "orw1", "addbb", "xorb2", "subl_", "sublq", "swapwl2", "mergebwx", "absbb",
                                  "zap", "zapb", "zapbx", "zz", "myop", "px", "vol", "volscale", "xaddw", "a"};
static const int kNExtNames = 36;

static std::vector<std::string> reg_gen(const GenArgs &ga) {
  Rng r = stream(ga.seed, ST_PLAN), d = stream(ga.seed, ST_DATA);
  std::vector<std::string> pl;
  bool thorough = ga.tier == "thorough";
  pl.push_back("prop " + ga.prop);
  pl.push_back("engine reg");
  pl.push_back(strf("seed %llu", (unsigned long long)ga.seed));
  pl.push_back(strf("cfg poison=%d", (int)r.chance(1, 2)));
  int nsets = 0;
  std::vector<std::vector<std::pair<int, int>>> sets;  // per set: (kind,size) per opcode
  int nops = 6 + (int)r.below(thorough ? 40 : 22);
  std::vector<int> name_order;
  for (int i = 0; i < kNExtNames; i++) name_order.push_back(i);
  for (int i = kNExtNames - 1; i > 0; i--) std::swap(name_order[i], name_order[r.below(i + 1)]);
  size_t name_cursor = 0;
  int rulesets_total = 0;
  std::map<std::pair<int, int>, std::vector<std::string>> ruled;  // (set, opcode) -> targets that have a rule for it
  std::set<std::pair<int, int>> unruled;   // opcodes that never get a rule (forms L and Q)
  for (int i = 0; i < nops; i++) {
    int c = (int)r.below(100);
    if ((i == 0 || c < 14) && nsets < 4) {
      int n = 1 + (int)r.below(6);
      // prefixes of every length the 8-byte prefix field can hold a terminated string of (1..7 characters)
      int pk = (int)r.below(4);
      std::string prefix = pk == 0 ? strf("extset%d", nsets) : pk == 1 ? strf("%c", 'p' + nsets) : pk == 2 ? strf("plug%d", nsets) : strf("x%d", nsets);
      // two plugins may choose the same prefix, or long ones that agree in the seven characters the library keeps:
      // every registration is a set of its own all the same
      if (r.chance(1, 6)) prefix = r.chance(1, 2) ? "ext" : (nsets % 2 ? "plugin_audio" : "plugin_video");
      std::string l = strf("op regset prefix=%s ops=", prefix.c_str());
      std::vector<std::pair<int, int>> ops;
      for (int k = 0; k < n; k++) {
        int kind = (int)r.below(K_NKINDS), size = 1 << r.below(3);
        if (r.chance(1, 5)) {
          // an opcode of the application's that has the very name of a built-in one, and other semantics: the
          // built-in keeps the name (size 0 here: never used as an extension instruction by later plan lines)
          int bk = (int)r.below(K_NKINDS - 1);
          l += strf("%s%s:%s:%d", ops.empty() ? "" : ",", builtin_name(bk, size), kKindName[(bk + 1 + r.below(K_NKINDS - 2)) % (K_NKINDS - 1)], size);
          ops.push_back({kind, 0});
          continue;
        }
        if (name_cursor >= name_order.size()) break;
        const char *nm = kExtNames[name_order[name_cursor++]];
        // some opcodes load from two arrays themselves (L), some take four sources (Q): neither has a code
        // generator here, so programs using them are emulated with the application's function
        const char *form = (kind != K_COPY && r.chance(1, 7)) ? (r.chance(1, 2) ? ":L" : ":Q") : "";
        l += strf("%s%s:%s:%d%s", ops.empty() ? "" : ",", nm, kKindName[kind], size, form);
        ops.push_back({kind, size});
        if (*form) unruled.insert({nsets, (int)ops.size() - 1});
      }
      if (ops.empty()) continue;
      sets.push_back(ops);
      nsets++;
      pl.push_back(l);
    } else if (c < 40 && nsets > 0 && rulesets_total < 12) {
      static const char *tg[] = {"sse", "sse", "avx", "mmx", "c"};
      const char *t = tg[r.below(5)];
      std::string setname = r.chance(1, 6) ? "sys" : strf("%d", (int)r.below(nsets));
      // required flags: CPU feature bits and/or the generic option bits 29..31 (fast-nan, fast-denormal, clean-compile)
      static const char *reqs[] = {"base", "base", "base", "opt1", "opt2", "never", "hi1", "hi2"};
      std::string l = strf("op ruleset set=%s target=%s req=%s ops=", setname.c_str(), t, reqs[r.below(8)]);
      if (setname == "sys") {
        // override a few built-in opcodes with the application's own rules
        int n = 1 + (int)r.below(2);
        for (int k = 0; k < n; k++) l += strf("%s%s", k ? "," : "", builtin_name((int)r.below(K_NKINDS - 1), 1 << r.below(3)));
      } else {
        int si = atoi(setname.c_str());
        int n = 1 + (int)r.below(sets[si].size());
        std::set<int> chosen;
        for (int k = 0; k < n; k++) chosen.insert((int)r.below(sets[si].size()));
        bool first = true;
        for (int k : chosen) { l += strf("%s%d", first ? "" : ",", k); first = false; if (sets[si][k].second && !unruled.count({si, k})) ruled[{si, k}].push_back(t); }
      }
      if (r.chance(1, 10)) l += ",nosuchopcodename";   // registering a rule for a name the set does not have is refused, not fatal
      rulesets_total++;
      pl.push_back(l);
    } else if (c < 50) {
      pl.push_back("op witness");
    } else if (c < 56) {
      pl.push_back(strf("op lookup n=%d", 1 + (int)r.below(4)));
    } else {
      static const char *tg[] = {"sse", "sse", "avx", "avx", "mmx", "emu", "c"};
      std::string t = tg[r.below(7)];
      int size = 1 << r.below(3);
      int len = 1 + (int)r.below(4);
      // most programs are aimed at an extension opcode that has a rule somewhere, on a target that has it
      if (!ruled.empty() && r.chance(2, 3)) {
        auto it = ruled.begin();
        std::advance(it, r.below(ruled.size()));
        t = it->second[r.below(it->second.size())];
        size = sets[it->first.first][it->first.second].second;
      }
      std::string l = strf("op prog target=%s drop=%d hi=%d size=%d rows=%d insns=", t.c_str(), r.chance(1, 2) ? 0 : (int)r.below(4),
                           r.chance(1, 2) ? 0 : (int)r.below(8), size, r.chance(1, 4) ? 1 : 0);
      for (int k = 0; k < len; k++) {
        bool ext = nsets > 0 && r.chance(3, 5);
        if (ext) {
          // pick an extension opcode of the right size if there is one
          std::vector<std::pair<int, int>> cand;
          for (int s = 0; s < nsets; s++) for (size_t o = 0; o < sets[s].size(); o++) if (sets[s][o].second == size) cand.push_back({s, (int)o});
          // prefer opcodes that have a rule on the chosen target
          std::vector<std::pair<int, int>> pref;
          for (auto &pr2 : cand) { auto it = ruled.find(pr2); if (it != ruled.end()) for (auto &tt : it->second) if (tt == t) { pref.push_back(pr2); break; } }
          if (!pref.empty() && r.chance(3, 4)) cand = pref;
          if (!cand.empty()) { auto pr = cand[r.below(cand.size())]; l += strf("%se:%d.%d", k ? "," : "", pr.first, pr.second); continue; }
        }
        l += strf("%sb:%s", k ? "," : "", kKindName[r.below(K_NKINDS)]);
      }
      l += strf(" n=%d ds=%llu", 1 + (int)r.below(80), (unsigned long long)(d.next() >> 20));
      pl.push_back(l);
    }
  }
  pl.push_back("op witness");
  return pl;
}

// ---------------------------------------------------------------------------
// registry model + interpreter
// ---------------------------------------------------------------------------
struct ExtOp { std::string name; int kind, size, emu_id; bool shadow = false; int form = 0; };
struct ExtSet { std::string prefix; std::vector<ExtOp> ops; OrcStaticOpcode *arr; int major; };
struct MRule { int id; };
struct MRuleSet {
  std::string target; int set;  // set index, -1 = sys
  unsigned req;
  std::map<std::string, int> rules;  // opcode name -> rule id
};
struct Witness { std::string spec, target; int result = 0; std::vector<uint8_t> code; std::string asm_text; uint64_t out = 0; std::set<std::string> opnames; };

static unsigned req_flags(const std::string &target, const std::string &req);
static unsigned req_flags_hi(const std::string &target, const std::string &req) {
  unsigned base = req_flags(target, "base");
  if (req == "hi1") return base | (unsigned)ORC_TARGET_FAST_DENORMAL;
  return base | (unsigned)ORC_TARGET_FAST_NAN | (unsigned)ORC_TARGET_CLEAN_COMPILE;
}
static unsigned req_flags(const std::string &target, const std::string &req) {
  if (req == "hi1" || req == "hi2") return req_flags_hi(target, req);
  if (target == "sse") {
    if (req == "base") return ORC_TARGET_SSE_SSE2;
    if (req == "opt1") return ORC_TARGET_SSE_SSSE3;
    if (req == "opt2") return ORC_TARGET_SSE_SSE4_1;
    return ORC_TARGET_SSE_SSE5;  // never present in the flags these programs are compiled with
  }
  if (target == "avx") {
    if (req == "base") return ORC_TARGET_AVX_AVX;
    if (req == "opt1") return ORC_TARGET_AVX_AVX | ORC_TARGET_AVX_AVX2;
    if (req == "opt2") return ORC_TARGET_SSE_SSE4_1 | ORC_TARGET_AVX_AVX2;
    return ORC_TARGET_SSE_SSE5;
  }
  if (target == "c") {
    if (req == "base") return 0;
    if (req == "opt1") return ORC_TARGET_C_C99;
    if (req == "opt2") return ORC_TARGET_C_C99 | (unsigned)ORC_TARGET_FAST_NAN;
    return 1u << 20;
  }
  if (req == "base") return ORC_TARGET_MMX_MMX;
  if (req == "opt1") return ORC_TARGET_MMX_MMXEXT;
  if (req == "opt2") return ORC_TARGET_MMX_SSSE3;
  return ORC_TARGET_MMX_3DNOWEXT;
}
// compile-time flag sets: which optional requirement bits are dropped
static unsigned drop_mask(const std::string &target, int drop) {
  unsigned m = 0;
  if (target == "sse") { if (drop & 1) m |= ORC_TARGET_SSE_SSSE3; if (drop & 2) m |= ORC_TARGET_SSE_SSE4_1; m |= ORC_TARGET_SSE_SSE5; }
  else if (target == "avx") { if (drop & 2) m |= ORC_TARGET_SSE_SSE4_1; m |= ORC_TARGET_SSE_SSE5; }
  else if (target == "c") { if (drop & 1) m |= ORC_TARGET_C_C99; m |= 1u << 20; }
  else { if (drop & 1) m |= ORC_TARGET_MMX_MMXEXT; if (drop & 2) m |= ORC_TARGET_MMX_SSSE3; m |= ORC_TARGET_MMX_3DNOWEXT; }
  return m;
}

static void reg_run(const std::vector<std::string> &plan, Child &c) {
  std::vector<std::vector<std::string>> ops;
  bool poison = false;
  uint64_t seed = 0;
  for (auto &l : plan) {
    auto w = words(l);
    if (w.empty()) continue;
    if (w[0] == "op") ops.push_back(w);
    else if (w[0] == "cfg") poison = kvi(w, "poison", 0);
    else if (w[0] == "seed" && w.size() > 1) seed = strtoull(w[1].c_str(), nullptr, 0);
  }
  unsetenv("ORC_CODE"); unsetenv("ORC_DEBUG"); unsetenv("ORC_BACKEND"); unsetenv("ORC_TARGET");
  unsetenv("XDG_RUNTIME_DIR"); unsetenv("HOME"); unsetenv("TMPDIR");
  fs::reset();
  fs::enable(true);
  fs::set_dir("/tmp", fs::P_OK);
  alloc::set_poison(poison, mix2(seed, 5));
  orc_init();
  install_debug_sink();

  std::vector<ExtSet> sets;
  std::vector<MRuleSet> rulesets;
  int next_emu = 0, next_rule = 0;
  std::set<std::string> overridden;  // built-in opcode names with an application rule on some target

  // witnesses, compiled before any registration
  std::vector<Witness> wit;
  {
    const char *specs[] = {"fixed:addw", "fixed:mulll", "corpus:3", "gen:77:6:4:1"};
    const char *tg[] = {"sse", "avx"};
    for (auto sp : specs) for (auto t : tg) { Witness w; w.spec = sp; w.target = t; wit.push_back(w); }
  }
  auto do_witness = [&](bool first) {
    for (auto &w : wit) {
      ProgMeta meta;
      OrcProgram *p = build_program(w.spec, "witness", &meta);
      std::set<std::string> names;
      for (auto &nm : words(meta.opnames)) { size_t col = nm.find(':'); names.insert(col == std::string::npos ? nm : nm.substr(col + 1)); }
      OrcTarget *t = orc_target_get_by_name(w.target.c_str());
      int res = orc_program_compile_full(p, t, orc_target_get_default_flags(t));
      OrcCode *code = p->orccode;
      std::vector<uint8_t> bytes;
      if (code && code->chunk) bytes.assign(code->code, code->code + code->code_size);
      const char *a = orc_program_get_asm_code(p);
      uint64_t out = 0;
      if (ORC_COMPILE_RESULT_IS_SUCCESSFUL(res) && !meta.unsafe_run) {
        RunData d;
        make_inputs(meta, 99, 0, d);
        run_with(p, nullptr, meta, RUN_EXEC, d);
        out = hash_outputs(meta, d);
      }
      if (first) { w.result = res; w.code = bytes; w.asm_text = a ? a : ""; w.out = out; w.opnames = names; }
      else {
        bool touched = false;
        for (auto &nm : names) if (overridden.count(nm)) touched = true;
        // loads/stores are inserted by the compiler for every program
        if (!touched) {
          c.count("witness.compared");
          if (res != w.result || bytes != w.code || w.asm_text != (a ? a : ""))
            c.violation("witness", "builtin-program-changed-by-registration",
                        strf("built-in-only program %s for %s compiles differently after registrations (result %#x vs %#x, %zu vs %zu bytes)", w.spec.c_str(),
                             w.target.c_str(), res, w.result, bytes.size(), w.code.size()));
          if (out != w.out)
            c.violation("witness", "builtin-program-result-changed", strf("built-in-only program %s for %s computes different results after registrations", w.spec.c_str(), w.target.c_str()));
        } else c.count("witness.skipped_overridden");
      }
      orc_program_free(p);
    }
  };
  do_witness(true);

  for (size_t oi = 0; oi < ops.size(); oi++) {
    auto &w = ops[oi];
    const std::string &op = w[1];
    std::string line;
    for (size_t k = 1; k < w.size(); k++) line += (k > 1 ? " " : "") + w[k];
    c.event("[%zu] %s", oi, line.c_str());
    if (op == "regset") {
      ExtSet s;
      s.prefix = kv(w, "prefix", "x");
      for (auto &item : split(kv(w, "ops"), ',')) {
        auto f = split(item, ':');
        if ((f.size() != 3 && f.size() != 4) || next_emu >= MAX_EMU) continue;
        ExtOp o{f[0], kind_from(f[1]), atoi(f[2].c_str()), next_emu++};
        if (f.size() == 4 && o.kind != K_COPY) o.form = f[3] == "L" ? 1 : f[3] == "Q" ? 2 : 0;
        // a name that is already taken (by a built-in opcode, or by an earlier set) stays with its first owner:
        // this opcode is registered all the same, and can never be reached by name
        if (orc_opcode_find_by_name(f[0].c_str())) { o.shadow = true; c.count("probe.extension_opcode_with_a_taken_name"); }
        g_emu[o.emu_id] = EmuInfo{o.kind, o.size, o.form};
        s.ops.push_back(o);
      }
      if (s.ops.empty()) continue;
      // lives as long as the process, like a plugin's table.  Half of the tables are built the way a program
      // builds one at run time: in memory that is not zeroed, every field assigned explicitly, names written as
      // C strings (whatever follows the terminating NUL in the 16-byte name field is garbage)
      bool runtime_built = (sets.size() + s.ops.size()) % 2 == 0;
      s.arr = (OrcStaticOpcode *)malloc((s.ops.size() + 1) * sizeof(OrcStaticOpcode));
      memset(s.arr, runtime_built ? 0x5a : 0, (s.ops.size() + 1) * sizeof(OrcStaticOpcode));
      s.arr[s.ops.size()].name[0] = 0;   // the terminating entry
      for (size_t k = 0; k < s.ops.size(); k++) {
        OrcStaticOpcode &so = s.arr[k];
        memset(so.dest_size, 0, sizeof so.dest_size);
        memset(so.src_size, 0, sizeof so.src_size);
        snprintf(so.name, sizeof so.name, "%s", s.ops[k].name.c_str());
        so.flags = s.ops[k].form == 1 ? ORC_STATIC_OPCODE_LOAD : 0;
        so.dest_size[0] = s.ops[k].size;
        so.src_size[0] = s.ops[k].size;
        if (s.ops[k].kind != K_COPY) so.src_size[1] = s.ops[k].size;
        if (s.ops[k].form == 2) so.src_size[2] = so.src_size[3] = s.ops[k].size;
        so.emulateN = kEmu[s.ops[k].emu_id];
      }
      s.major = orc_opcode_register_static(s.arr, (char *)s.prefix.c_str());
      c.event("  registered set %s major=%d n=%zu", s.prefix.c_str(), s.major, s.ops.size());
      sets.push_back(s);
      c.count("reg.opcode_sets");
    } else if (op == "ruleset") {
      std::string tname = kv(w, "target", "sse");
      OrcTarget *t = orc_target_get_by_name(tname.c_str());
      if (!t) continue;
      if (t->n_rule_sets >= ORC_N_RULE_SETS) { c.event("  skip: rule-set capacity reached"); c.count("probe.ruleset_capacity_reached"); continue; }
      std::string setname = kv(w, "set", "0");
      MRuleSet m;
      m.target = tname;
      m.req = req_flags(tname, kv(w, "req", "base"));
      OrcOpcodeSet *oset;
      if (setname == "sys") { m.set = -1; oset = orc_opcode_set_get("sys"); }
      else {
        m.set = atoi(setname.c_str());
        if (m.set >= (int)sets.size()) continue;
        // by prefix where the prefix identifies the set (at most seven characters, used once), else by the number
        // the registration returned
        int same = 0;
        for (auto &o2 : sets) if (o2.prefix.substr(0, 7) == sets[m.set].prefix.substr(0, 7)) same++;
        if (same == 1 && sets[m.set].prefix.size() <= 7) {
          oset = orc_opcode_set_get(sets[m.set].prefix.c_str());
          if (!oset) { c.violation("registry", "opcode-set-not-found-by-prefix", "orc_opcode_set_get() does not find a registered set"); continue; }
        } else {
          oset = orc_opcode_set_get_nth(sets[m.set].major);
          c.count("probe.opcode_set_with_shared_prefix");
          if (!oset || oset->opcodes != sets[m.set].arr) { c.violation("registry", "opcode-set-not-found-by-number", "orc_opcode_set_get_nth(<number returned by the registration>) is not the registered set"); continue; }
        }
      }
      OrcRuleSet *rs = orc_rule_set_new(oset, t, m.req);
      for (auto &item : split(kv(w, "ops"), ',')) {
        if (next_rule >= MAX_RULE) break;
        std::string oname;
        int kind, size;
        if (item == "nosuchopcodename") {
          // not in the set: the registration must be refused without harm, and changes nothing
          if (next_rule < MAX_RULE) orc_rule_register(rs, "nosuchopcodename", kRule[next_rule], (void *)(intptr_t)(next_rule + 1000));
          c.count("probe.rule_for_unknown_opcode_refused");
          continue;
        }
        if (m.set < 0) {
          oname = item;
          size = oname.back() == 'b' ? 1 : oname.back() == 'w' ? 2 : 4;
          kind = kind_from(oname.substr(0, oname.size() - 1));
          overridden.insert(oname);
        } else {
          int k = atoi(item.c_str());
          if (k >= (int)sets[m.set].ops.size()) continue;
          if (sets[m.set].ops[k].form != 0) continue;   // (the harness has no code generator for these: emulated only)
          oname = sets[m.set].ops[k].name; kind = sets[m.set].ops[k].kind; size = sets[m.set].ops[k].size;
        }
        if (tname == "mmx" && size > 4) continue;
        int id = next_rule++;
        g_rule[id] = RuleInfo{kind, size, tname == "sse" ? 's' : tname == "avx" ? 'a' : tname == "c" ? 'c' : 'm'};
        orc_rule_register(rs, oname.c_str(), kRule[id], (void *)(intptr_t)(id + 1000));
        m.rules[oname] = id;
      }
      rulesets.push_back(m);
      c.count("reg.rule_sets");
      if (t->n_rule_sets == ORC_N_RULE_SETS) c.count("probe.ruleset_capacity_exactly_full");
    } else if (op == "witness") {
      do_witness(false);
    } else if (op == "lookup") {
      // name lookup: extension names give the extension's opcode, built-in names the built-in
      for (auto &s : sets)
        for (size_t k = 0; k < s.ops.size(); k++) {
          OrcStaticOpcode *o = orc_opcode_find_by_name(s.ops[k].name.c_str());
          if (s.ops[k].shadow) {
            if (o == s.arr + k)
              c.violation("lookup", "builtin-name-resolves-elsewhere", strf("orc_opcode_find_by_name(\"%s\") returns the application's opcode although the name was taken before it was registered", s.ops[k].name.c_str()));
          } else if (o != s.arr + k)
            c.violation("lookup", "extension-name-resolves-elsewhere", strf("orc_opcode_find_by_name(\"%s\") does not return the extension's opcode", s.ops[k].name.c_str()));
          OrcOpcodeSet *os = orc_opcode_set_find_by_opcode(s.arr + k);
          if (!os || os->opcode_major != s.major || os->opcodes != s.arr)
            c.violation("lookup", "set-of-extension-opcode-wrong", strf("orc_opcode_set_find_by_opcode() does not return the set that owns \"%s\"", s.ops[k].name.c_str()));
        }
      OrcOpcodeSet *sys = orc_opcode_set_get("sys");  // (the set array moves on every registration: never cached)
      for (int kind = 0; kind < K_NKINDS; kind++)
        for (int size : {1, 2, 4}) {
          const char *bn = builtin_name(kind, size);
          OrcStaticOpcode *o = orc_opcode_find_by_name(bn);
          if (!o || o < sys->opcodes || o >= sys->opcodes + sys->n_opcodes || strcmp(o->name, bn))
            c.violation("lookup", "builtin-name-resolves-elsewhere", strf("orc_opcode_find_by_name(\"%s\") does not return the built-in opcode", bn));
        }
      c.count("op.lookup");
    } else if (op == "prog") {
      std::string tname = kv(w, "target", "sse");
      int size = (int)kvi(w, "size", 2);
      struct Insn { bool ext; int set, idx, kind; std::string name; int form = 0; };
      std::vector<Insn> insns;
      for (auto &item : split(kv(w, "insns"), ',')) {
        if (starts(item, "e:")) {
          int s = 0, o = 0;
          if (sscanf(item.c_str() + 2, "%d.%d", &s, &o) != 2 || s >= (int)sets.size() || o >= (int)sets[s].ops.size()) continue;
          if (sets[s].ops[o].size != size || sets[s].ops[o].shadow) continue;
          if (sets[s].ops[o].form == 1 && !insns.empty()) continue;   // an opcode that loads by itself reads arrays: first instruction only
          insns.push_back({true, s, o, sets[s].ops[o].kind, sets[s].ops[o].name, sets[s].ops[o].form});
          // half of the four-source instructions get a *temporary* as their third source - one that was written
          // twice before (the compiler then works on a renamed copy of it)
          if (insns.back().form == 2 && ((kvu(w, "ds", 1) >> (insns.size() & 15)) & 1)) insns.back().form = 3;
        } else if (starts(item, "b:")) {
          int kind = kind_from(item.substr(2));
          insns.push_back({false, -1, -1, kind, builtin_name(kind, size)});
        }
      }
      if (insns.empty()) continue;
      if (tname == "mmx" && size > 4) continue;
      // chain: t = s1; t = op_k(t, s_{k+1}); d1 = t
      OrcProgram *p = orc_program_new();
      orc_program_set_name(p, strf("regprog%zu", oi).c_str());
      int d1 = orc_program_add_destination(p, size, "d1");
      int s1 = orc_program_add_source(p, size, "s1");
      int t1 = orc_program_add_temporary(p, size, "t1");
      int t2 = orc_program_add_temporary(p, size, "t2");
      if (kvi(w, "rows", 0) > 0) orc_program_set_2d(p);
      int cur = s1, nsrc = 1;
      std::vector<int> srcvars = {s1};
      std::map<int, std::string> vname = {{d1, "d1"}, {s1, "s1"}, {t1, "t1"}, {t2, "t2"}};
      // four-source opcodes need three more arrays each: drop the ones that do not fit the eight source slots
      {
        int need = 1;
        std::vector<Insn> kept;
        for (auto &in : insns) {
          int more = in.form == 3 ? 4 : in.form == 2 ? 3 : in.kind != K_COPY ? 1 : 0;
          if (need + more > 8) continue;
          need += more;
          kept.push_back(in);
        }
        insns = kept;
      }
      if (insns.empty()) { orc_program_free(p); continue; }
      for (size_t k = 0; k < insns.size(); k++) {
        bool last = k + 1 == insns.size();
        int dst = last ? d1 : (k % 2 ? t2 : t1);
        int b = 0;
        if (insns[k].kind != K_COPY) {
          b = orc_program_add_source(p, size, strf("s%d", ++nsrc).c_str());
          vname[b] = strf("s%d", nsrc);
          srcvars.push_back(b);
        }
        if (insns[k].form == 3) {
          // third source: a temporary, t3 = sA; t3 = t3 + sB (written twice)
          int t3 = orc_program_add_temporary(p, size, strf("u%zu", k).c_str());
          int sA = orc_program_add_source(p, size, strf("s%d", nsrc + 1).c_str());
          int sB = orc_program_add_source(p, size, strf("s%d", nsrc + 2).c_str());
          int e2 = orc_program_add_source(p, size, strf("s%d", nsrc + 3).c_str());
          vname[t3] = strf("u%zu", k); vname[sA] = strf("s%d", nsrc + 1); vname[sB] = strf("s%d", nsrc + 2); vname[e2] = strf("s%d", nsrc + 3);
          nsrc += 3;
          srcvars.push_back(sA); srcvars.push_back(sB); srcvars.push_back(e2);
          orc_program_append_2(p, builtin_name(K_COPY, size), 0, t3, sA, 0, 0);
          orc_program_append_2(p, builtin_name(K_ADD, size), 0, t3, t3, sB, 0);
          std::string n0 = vname[dst], n1 = vname[cur], n2 = vname[b], n3 = vname[t3], n4 = vname[e2];
          const char *args[5] = {n0.c_str(), n1.c_str(), n2.c_str(), n3.c_str(), n4.c_str()};
          orc_program_append_str_n(p, insns[k].name.c_str(), 0, 5, args);
          c.count("probe.five_operand_extension_instruction_with_temporary_source");
        } else if (insns[k].form == 2) {
          // five operands: only the by-name entry point can express them
          int c2 = orc_program_add_source(p, size, strf("s%d", nsrc + 1).c_str());
          int e2 = orc_program_add_source(p, size, strf("s%d", nsrc + 2).c_str());
          vname[c2] = strf("s%d", nsrc + 1); vname[e2] = strf("s%d", nsrc + 2);
          nsrc += 2;
          srcvars.push_back(c2); srcvars.push_back(e2);
          std::string n0 = vname[dst], n1 = vname[cur], n2 = vname[b], n3 = vname[c2], n4 = vname[e2];
          const char *args[5] = {n0.c_str(), n1.c_str(), n2.c_str(), n3.c_str(), n4.c_str()};
          orc_program_append_str_n(p, insns[k].name.c_str(), 0, 5, args);
          c.count("probe.five_operand_extension_instruction");
        } else {
          orc_program_append_2(p, insns[k].name.c_str(), 0, dst, cur, b, 0);
        }
        if (insns[k].form == 1) c.count("probe.self_loading_extension_instruction");
        cur = dst;
      }
      if (strcmp(orc_program_get_error(p), "")) {
        c.violation("program", "append-failed", strf("building a program with registered opcodes failed: %s", orc_program_get_error(p)));
      }
      ProgMeta meta;
      meta.name = "regprog";
      fill_meta(p, &meta);
      // model: which rule serves each instruction on this target with these flags
      OrcTarget *t = tname == "emu" ? nullptr : orc_target_get_by_name(tname.c_str());
      unsigned flags = t ? (orc_target_get_default_flags(t) & ~drop_mask(tname, (int)kvi(w, "drop", 0))) : 0;
      if (tname == "c") flags = (orc_target_get_default_flags(t) | ORC_TARGET_C_C99) & ~drop_mask(tname, (int)kvi(w, "drop", 0));
      if (t) {
        int hi = (int)kvi(w, "hi", 0);
        if (hi & 1) flags |= (unsigned)ORC_TARGET_FAST_DENORMAL;
        if (hi & 2) flags |= (unsigned)ORC_TARGET_FAST_NAN;
        if (hi & 4) flags |= (unsigned)ORC_TARGET_CLEAN_COMPILE;
      }
      std::set<int> expect_rules;
      bool expect_native = t != nullptr;
      for (auto &in : insns) {
        int chosen = -2;  // -2 none, -1 built-in rule
        for (int ri = (int)rulesets.size() - 1; ri >= 0 && t; ri--) {
          const MRuleSet &m = rulesets[ri];
          if (m.target != tname) continue;
          if (in.ext ? (m.set != in.set) : (m.set != -1)) continue;
          if (m.req & ~flags) continue;
          auto it = m.rules.find(in.name);
          if (it == m.rules.end()) continue;
          chosen = it->second;
          break;
        }
        if (chosen == -2 && !in.ext) chosen = -1;  // all built-in kinds used here have built-in rules on sse/avx/mmx
        if (chosen >= 0) expect_rules.insert(chosen);
        if (chosen == -2) expect_native = false;
      }
      memset(g_rule_hits, 0, sizeof g_rule_hits);
      int res = orc_program_compile_full(p, t, flags);
      std::set<int> got_rules;
      for (int i = 0; i < next_rule; i++) if (g_rule_hits[i]) got_rules.insert(i);
      bool ok = ORC_COMPILE_RESULT_IS_SUCCESSFUL(res);
      c.event("  compile target=%s flags=%#x res=%#x rules_invoked=%zu expected=%zu native_expected=%d", tname.c_str(), flags, res, got_rules.size(),
              expect_rules.size(), expect_native);
      c.count(ok ? "compile.native" : "compile.fallback");
      auto set_str = [](const std::set<int> &s) { std::string o; for (int x : s) o += strf("%s%d", o.empty() ? "" : ",", x); return o; };
      if (t) {
        if (expect_native && !ok)
          c.violation("rules", "rule-not-found", strf("every instruction has an eligible rule on %s (flags %#x) but compilation fell back: %#x %s", tname.c_str(), flags, res, orc_program_get_error(p)));
        if (!expect_native && ok)
          c.violation("rules", "compiled-without-eligible-rule", strf("an extension opcode has no eligible rule on %s (flags %#x) but compilation succeeded", tname.c_str(), flags));
        if (expect_native && ok && got_rules != expect_rules)
          c.violation("rules", "wrong-rule-invoked", strf("rule functions invoked {%s}, the registry model predicts {%s} (target %s flags %#x)", set_str(got_rules).c_str(), set_str(expect_rules).c_str(), tname.c_str(), flags));
        if (!expect_native) {
          // rules of eligible instructions may or may not have run before the missing one was hit; none outside the model may run
          for (int g : got_rules) if (!expect_rules.count(g))
            c.violation("rules", "wrong-rule-invoked", strf("rule %d was invoked but is not the eligible rule for any instruction (model {%s})", g, set_str(expect_rules).c_str()));
        }
        if (g_rule_user_mismatch)
          c.violation("rules", "emit-user-mismatch", "a rule function was called with another rule's user pointer");
        if (ok) c.count("probe.extension_rule_compiled", got_rules.empty() ? 0 : 1);
        if (expect_rules.size() && rulesets.size() >= 2) c.count("probe.precedence_decided_among_several_rule_sets");
      }
      if (ORC_COMPILE_RESULT_IS_FATAL(res)) {
        c.violation("program", "fatal-compile", strf("program with registered opcodes failed fatally: %#x %s", res, orc_program_get_error(p)));
      }
      // reference computed by the harness itself
      RunData act, emu;
      int n = (int)kvi(w, "n", 16);
      uint64_t ds = kvu(w, "ds", 1);
      make_inputs(meta, ds, n, act);
      make_inputs(meta, ds, n, emu);
      std::vector<uint8_t> ref((size_t)act.n * size * act.m);
      for (int row = 0; row < act.m; row++)
      for (int i = 0; i < act.n; i++) {
        uint32_t v = 0;
        memcpy(&v, act.ptr(s1) + (size_t)row * act.stride[s1] + (size_t)i * size, size);
        size_t si = 1;
        for (auto &in : insns) {
          int nb = in.form >= 2 ? 3 : in.kind != K_COPY ? 1 : 0;
          auto src_at = [&](size_t idx) { uint32_t x = 0; memcpy(&x, act.ptr(srcvars[idx]) + (size_t)row * act.stride[srcvars[idx]] + (size_t)i * size, size); return x; };
          for (int q = 0; q < (nb ? nb : 1); q++) {
            uint32_t b = 0;
            if (nb) {
              if (in.form == 3 && q == 1) { b = src_at(si) + src_at(si + 1); si += 2; if (size < 4) b &= (1u << (8 * size)) - 1; }   // the temporary: sA + sB
              else { b = src_at(si); si++; }
            }
            v = apply_kind(in.kind, v, b);
            if (size < 4) v &= (1u << (8 * size)) - 1;
          }
        }
        memcpy(ref.data() + ((size_t)row * act.n + i) * size, &v, size);
      }
      auto rows_equal = [&](const RunData &rd) {
        for (int row = 0; row < rd.m; row++)
          if (memcmp(rd.ptr(d1) + (size_t)row * rd.stride[d1], ref.data() + (size_t)row * rd.n * size, (size_t)rd.n * size)) return false;
        return true;
      };
      memset(g_emu_hits, 0, sizeof g_emu_hits);
      bool can_call = !(ok && t && !t->executable);   // code for a backend that cannot run here is never called
      run_with(p, nullptr, meta, can_call ? RUN_EXEC : RUN_EMULATE, act);
      if (!can_call) { memset(g_emu_hits, 0, sizeof g_emu_hits); c.count("compile.foreign_target_ok"); }
      std::set<int> emu_during_run;
      for (int i = 0; i < next_emu; i++) if (g_emu_hits[i]) emu_during_run.insert(i);
      if (!rows_equal(act))
        c.violation("result", ok ? "native-result-wrong" : "fallback-result-wrong", strf("program [%s] on %s (%s) computes results different from the extension's own reference", meta.opnames.c_str(), tname.c_str(), ok ? "native" : "fallback"));
      if (ok && !emu_during_run.empty())
        c.violation("result", "emulation-used-despite-native", "a natively compiled program called emulation functions");
      memset(g_emu_hits, 0, sizeof g_emu_hits);
      run_with(p, nullptr, meta, RUN_EMULATE, emu);
      std::set<int> got_emu, expect_emu;
      for (int i = 0; i < next_emu; i++) if (g_emu_hits[i]) got_emu.insert(i);
      for (auto &in : insns) if (in.ext) expect_emu.insert(sets[in.set].ops[in.idx].emu_id);
      c.event("  ran out=%016llx emulate ids=%s", (unsigned long long)hash_outputs(meta, act), set_str(got_emu).c_str());
      if (!rows_equal(emu))
        c.violation("result", "emulation-result-wrong", strf("emulation of [%s] differs from the extension's own reference", meta.opnames.c_str()));
      if (got_emu != expect_emu)
        c.violation("emulate", "wrong-emulate-function", strf("emulation invoked the application's functions {%s}, expected {%s}", set_str(got_emu).c_str(), set_str(expect_emu).c_str()));
      c.state(fnv(strf("%s|%zu|%zu|%d", tname.c_str(), rulesets.size(), sets.size(), ok)));
      c.count("op.prog");
      orc_program_free(p);
    }
  }
}

static bool reg_deletable(const std::string &line) { return starts(line, "op "); }
static std::vector<std::string> reg_simplify(const std::string &line) {
  std::vector<std::string> out;
  auto w = words(line);
  if (w.size() < 2 || w[0] != "op") return out;
  auto with = [&](const char *key, const std::string &val) {
    std::string s;
    for (auto &x : w) s += (s.empty() ? "" : " ") + (starts(x, (std::string(key) + "=").c_str()) ? std::string(key) + "=" + val : x);
    if (s != line) out.push_back(s);
  };
  if (w[1] == "prog") {
    with("n", "4"); with("drop", "0"); with("hi", "0");
    auto items = split(kv(w, "insns"), ',');
    if (items.size() > 1)
      for (size_t k = 0; k < items.size(); k++) {
        std::string s;
        for (size_t j = 0; j < items.size(); j++) if (j != k) s += (s.empty() ? "" : ",") + items[j];
        with("insns", s);
      }
  }
  if (w[1] == "ruleset") with("req", "base");
  return out;
}
static void reg_prepare() { corpus_load(); }

const Engine reg = {"reg", reg_gen, reg_run, reg_deletable, reg_simplify, reg_prepare};

}  // namespace

const Engine *const reg_engine = &reg;

}  // namespace sim
