// Engines that are not part of a given link variant.
#include "../core/sim.h"
namespace sim {
#ifndef HAVE_HIST_ENGINE
const Engine *const hist_engine = nullptr;
#endif
#ifndef HAVE_CPU_ENGINE
const Engine *const cpu_engine = nullptr;
#endif
#ifndef HAVE_REG_ENGINE
const Engine *const reg_engine = nullptr;
#endif
#ifndef HAVE_SCHED_ENGINE
const Engine *const sched_engine = nullptr;
#endif
}
