// schedsim: 2..16 cooperative tasks drive liborc and orcc-generated wrappers
// concurrently under a seeded scheduler with a happens-before race detector.
// Serves C08.
#include "../core/sim.h"
#include "../core/orcrun.h"
#include "../seams/filesim.h"
#include "../seams/schedrt.h"

#include <fcntl.h>
#include <memory>
#include <sys/wait.h>
#include <unistd.h>

extern "C" {
#include <orc/orcfunctions.h>
#include "wrap_new.h"
#include "wrap_old.h"
#include "wrap_c99.h"
OrcCompileResult __real_orc_program_compile(OrcProgram *p);
}

namespace sim {
namespace {

// ---------------------------------------------------------------------------
// wrapper table
// ---------------------------------------------------------------------------
static const char *kWrappers[] = {"sim_add_s16", "sim_sub_u8", "sim_xor_u32", "sim_scale_s16", "sim_sum_s32",
                                  "old_add_u8", "old_sub_s16", "orc_memcpy", "orc_memset", "c99_add_s16", "c99_xor_u32"};
static const int NWRAP = 11;
static int g_init_count[NWRAP];
static int g_call_count[NWRAP];

static int wrapper_index(const char *name) {
  if (!name) return -1;
  for (int i = 0; i < NWRAP; i++) if (!strcmp(name, kWrappers[i])) return i;
  return -1;
}

}  // namespace
}  // namespace sim

// Every lazy-init block of a generated wrapper compiles its program exactly
// once through orc_program_compile(): count those calls per program name.
extern "C" OrcCompileResult __wrap_orc_program_compile(OrcProgram *p) {
  int i = sim::wrapper_index(p ? p->name : nullptr);
  if (i >= 0) sim::g_init_count[i]++;
  return __real_orc_program_compile(p);
}

namespace sim {
namespace {

// ---------------------------------------------------------------------------
// plan generation
// ---------------------------------------------------------------------------
static std::vector<std::string> sched_gen(const GenArgs &ga) {
  Rng sw = stream(ga.seed, ST_SWARM), pr = stream(ga.seed, ST_PLAN), dr = stream(ga.seed, ST_DATA);
  bool thorough = ga.tier == "thorough";
  std::vector<std::string> pl;
  pl.push_back("prop " + ga.prop);
  pl.push_back("engine sched");
  pl.push_back(strf("seed %llu", (unsigned long long)ga.seed));
  // ---- enumerated part: every single forced switch at a synchronisation point, for six small scenarios ----
  {
    const int K = thorough ? 120 : 40, T = 3, NSC = thorough ? 6 : 4;
    uint64_t per = (uint64_t)K * T;
    if (ga.index < per * NSC) {
      int sc = (int)(ga.index / per);
      int k = (int)(ga.index % per) / T, to = (int)(ga.index % per) % T;
      pl.push_back(strf("cfg tasks=3 strategy=enum p=64 pct_d=1 schedseed=1 slots=1 fs=ok enum=%d:%d", k, to));
      static const char *cold[] = {"sim_add_s16", "old_add_u8", "c99_add_s16", "orc_memcpy"};
      for (int t = 0; t < 3; t++) {
        if (sc < 4) {
          pl.push_back(strf("t%d op wrapper w=%s n=%d ds=%d", t, cold[sc], 5 + t, 100 + t));
          pl.push_back(strf("t%d op wrapper w=%s n=%d ds=%d", t, cold[sc], 9 + t, 200 + t));
        } else if (sc == 4) {
          if (t == 0) { pl.push_back("t0 op private spec=fixed:addw n=9 ds=7"); pl.push_back("t0 op churn spec=gen:5:6:8:1 n=9 ds=8"); }
          if (t == 1) { pl.push_back("t1 op churn spec=gen:6:9:8:1 n=7 ds=9"); pl.push_back("t1 op churn spec=gen:7:3:8:1 n=7 ds=10"); }
          if (t == 2) { pl.push_back("t2 op wrapper w=sim_xor_u32 n=11 ds=11"); pl.push_back("t2 op private spec=fixed:subb n=5 ds=12"); }
        } else {
          if (t == 0) { pl.push_back("t0 op publish slot=0 spec=gen:9:5:8:1"); pl.push_back("t0 op use slot=0 mode=exec n=9 ds=13"); }
          if (t == 1) { pl.push_back("t1 op use slot=0 mode=emulate n=8 ds=14"); pl.push_back("t1 op take slot=0 n=8 ds=15"); }
          if (t == 2) { pl.push_back("t2 op churn spec=gen:11:7:8:1 n=6 ds=16"); pl.push_back("t2 op use slot=0 mode=exec n=6 ds=17"); }
        }
      }
      return pl;
    }
    // thorough tier: every PAIR of forced switches among the first 18 synchronisation points, for the four
    // once-protocol scenarios
    const int K2 = 18;
    uint64_t singles = per * NSC, pairs_per = (uint64_t)K2 * K2 * T * T;
    if (thorough && ga.index < singles + pairs_per * 4) {
      uint64_t x = ga.index - singles;
      int sc = (int)(x / pairs_per);
      x %= pairs_per;
      int to2 = (int)(x % T); x /= T;
      int to1 = (int)(x % T); x /= T;
      int k2 = (int)(x % K2); x /= K2;
      int k1 = (int)x;
      pl.push_back(strf("cfg tasks=3 strategy=enum p=64 pct_d=1 schedseed=1 slots=1 fs=ok enum=%d:%d,%d:%d", k1, to1, k1 + 1 + k2, to2));
      static const char *cold[] = {"sim_add_s16", "old_add_u8", "c99_add_s16", "orc_memcpy"};
      for (int t = 0; t < 3; t++) {
        pl.push_back(strf("t%d op wrapper w=%s n=%d ds=%d", t, cold[sc], 5 + t, 100 + t));
        pl.push_back(strf("t%d op wrapper w=%s n=%d ds=%d", t, cold[sc], 9 + t, 200 + t));
      }
      return pl;
    }
  }
  int ntasks = 2 + (int)sw.below(thorough ? 15 : 7);
  static const char *strat[] = {"sync", "random", "random", "pct", "conflict"};
  std::string st = strat[sw.below(5)];
  static const int pden[] = {4, 16, 64, 256, 1024, 4096};
  int nslots = 1 + (int)sw.below(3);
  bool init_first = sw.chance(1, 3);   // some tasks start with orc_init(), others rely on the wrappers
  // a quarter of the runs also meet an unreliable OS while they compile concurrently
  static const char *fsmodes[] = {"ok", "ok", "ok", "flaky-mmap", "flaky-mkstemp", "noexec-dirs", "all-denied", "windows", "windows"};
  std::string fsmode = fsmodes[sw.below(9)];
  pl.push_back(strf("cfg tasks=%d strategy=%s p=%d pct_d=%d schedseed=%llu slots=%d fs=%s", ntasks, st.c_str(), pden[sw.below(6)],
                    1 + (int)sw.below(3), (unsigned long long)(stream(ga.seed, ST_SCHED).next() >> 8), nslots, fsmode.c_str()));
  // a sixth of the runs have the library's own diagnostics on (ORC_DEBUG=2..4); a third build some programs from
  // static bytecode, the way generated code does
  if (sw.chance(1, 6)) pl.back() += strf(" debug=%d", 2 + (int)sw.below(3));
  int bc_den = sw.chance(1, 3) ? 2 : 0;
  int ops_per_task = 2 + (int)sw.below(thorough ? 7 : 5);
  // workload mix is itself a swarm choice
  int w_wrapper = 2 + (int)sw.below(6), w_private = (int)sw.below(5), w_publish = (int)sw.below(4), w_use = (int)sw.below(5),
      w_take = (int)sw.below(3), w_churn = (int)sw.below(4), w_hoard = (sw.chance(1, 3) || fsmode == "windows") ? 3 : 0, w_init = 1;
  // a quarter of the runs also compile (only) for backends this machine cannot execute - few distinct programs,
  // so that tasks meet in the same code generator with the same and with different programs
  int w_x = sw.chance(1, 4) ? 4 : 0;
  std::string x_tgt = std::vector<std::string>{"mips", "neon", "neon", "altivec", "c", "c64x-c"}[sw.below(6)];
  // "windows": tasks open and close windows in which the OS refuses every executable mapping, while they and the
  // others keep compiling (and hoarding, so that new regions are needed inside such windows)
  int w_window = fsmode == "windows" ? 3 : 0;
  for (int t = 0; t < ntasks; t++) {
    for (int i = 0; i < ops_per_task; i++) {
      std::string l = strf("t%d op ", t);
      int tot = w_wrapper + w_private + w_publish + w_use + w_take + w_churn + w_hoard + w_window + w_x + w_init;
      int x = (int)pr.below(tot);
      if (i == 0 && init_first && pr.chance(1, 2)) x = tot - 1;
      else if (i == 0 && pr.chance(1, 2)) x = 0;   // first calls of wrappers race
      if ((x -= w_wrapper) < 0) {
        int wi = (int)pr.below(NWRAP);
        // first-call races: bias towards few distinct wrappers per run
        if (pr.chance(1, 2)) wi = (int)(ga.seed % NWRAP);
        l += strf("wrapper w=%s n=%d ds=%llu", kWrappers[wi], 1 + (int)pr.below(60), (unsigned long long)(dr.next() >> 20));
      } else if ((x -= w_private) < 0) {
        int len = 1 + (int)pr.below(8);
        std::string spec = pr.chance(1, 3) ? strf("corpus:%d", (int)pr.below(100000))
                                           : pr.chance(1, 2) ? strf("gen:%llu:%d:8:1", (unsigned long long)(pr.next() >> 40) % 5, len)
                                                             : strf("gen:%llu:%d:8:17", (unsigned long long)(pr.next() >> 16), len);
        l += strf("private spec=%s n=%d ds=%llu", spec.c_str(), 1 + (int)pr.below(40), (unsigned long long)(dr.next() >> 20));
        if (bc_den && pr.chance(1, bc_den)) l += " via=bc";
      } else if ((x -= w_publish) < 0) {
        l += strf("publish slot=%d spec=gen:%llu:%d:8:1", (int)pr.below(nslots), (unsigned long long)(pr.next() >> 16), 1 + (int)pr.below(6));
        if (bc_den && pr.chance(1, bc_den)) l += " via=bc";
      } else if ((x -= w_use) < 0) {
        l += strf("use slot=%d mode=%s n=%d ds=%llu", (int)pr.below(nslots), pr.chance(1, 3) ? "emulate" : "exec", 1 + (int)pr.below(40),
                  (unsigned long long)(dr.next() >> 20));
      } else if ((x -= w_take) < 0) {
        l += strf("take slot=%d n=%d ds=%llu", (int)pr.below(nslots), 1 + (int)pr.below(40), (unsigned long long)(dr.next() >> 20));
      } else if ((x -= w_churn) < 0) {
        l += strf("churn spec=gen:%llu:%d:8:1 n=%d ds=%llu", (unsigned long long)(pr.next() >> 16), 1 + (int)pr.below(20), 1 + (int)pr.below(40),
                  (unsigned long long)(dr.next() >> 20));
        if (bc_den && pr.chance(1, bc_den)) l += " via=bc";
      } else if ((x -= w_x) < 0) {
        static const char *fx[] = {"fixed:addw", "fixed:subb", "fixed:copyb", "fixed:accl", "fixed:acc2", "fixed:mulll"};
        std::string xs = pr.chance(1, 2) ? std::string(fx[pr.below(6)])   // (small programs every backend has rules for)
                                         : strf("gen:%llu:%d:4:%d", (unsigned long long)(pr.next() >> 40) % 6, 1 + (int)pr.below(5), pr.chance(1, 2) ? 1 : 17);
        l += strf("xcompile tgt=%s fset=%s spec=%s", x_tgt.c_str(), (x_tgt == "neon" && pr.chance(1, 2)) ? "0x8" : "0", xs.c_str());
      } else if ((x -= w_window) < 0) {
        l += strf("oswindow state=%s", pr.chance(1, 2) ? "deny" : "allow");
      } else if ((x -= w_hoard) < 0) {
        // several large functions kept alive until the task ends: regions fill up and new ones are
        // created while other tasks allocate and free
        l += strf("hoard k=%d seed=%llu n=%d ds=%llu", 3 + (int)pr.below(5), (unsigned long long)(pr.next() >> 16), 1 + (int)pr.below(40),
                  (unsigned long long)(dr.next() >> 20));
      } else {
        l += "init";
      }
      pl.push_back(l);
    }
  }
  return pl;
}

// ---------------------------------------------------------------------------
// run
// ---------------------------------------------------------------------------
struct Slot {
  OrcCode *code = nullptr;
  std::shared_ptr<ProgMeta> meta;
  OrcProgram *twin = nullptr;   // reference, compiled for emulation only; freed by main at the end
  int users = 0;
  std::string spec;
};

struct Ctx {
  Child *c;
  std::vector<std::vector<std::vector<std::string>>> task_ops;
  std::vector<Slot> slots;
  std::vector<OrcProgram *> twins_to_free;
  std::map<std::string, uint64_t> code_hash_by_spec;
  std::string failure_class, failure_key, failure_msg;  // first in-task failure (reported by main after the run)
  uint64_t results_hash = 0;
  int ops_done = 0;
};
static Ctx *g_ctx = nullptr;

static void fail(const std::string &cls, const std::string &key, const std::string &msg) {
  if (g_ctx->failure_class.empty()) { g_ctx->failure_class = cls; g_ctx->failure_key = key; g_ctx->failure_msg = msg; }
}

static uint32_t ref_elem(const std::string &w, uint32_t a, uint32_t b, int p1) {
  if (w == "sim_add_s16" || w == "c99_add_s16") return (uint16_t)(a + b);
  if (w == "c99_xor_u32") return a ^ b;
  if (w == "sim_sub_u8") return (uint8_t)(a - b);
  if (w == "sim_xor_u32") return a ^ b;
  if (w == "sim_scale_s16") return (uint16_t)((int16_t)a * (int16_t)p1);
  if (w == "old_add_u8") return (uint8_t)(a + b);
  if (w == "old_sub_s16") return (uint16_t)(a - b);
  return a;
}

static void op_wrapper(int tid, const std::vector<std::string> &w) {
  std::string name = kv(w, "w");
  int n = (int)kvi(w, "n", 8);
  Rng r(kvu(w, "ds", 1));
  int wi = wrapper_index(name.c_str());
  if (wi < 0) return;
  g_call_count[wi]++;
  int esz = (name == "sim_sub_u8" || name == "old_add_u8" || name == "orc_memcpy" || name == "orc_memset") ? 1
            : (name == "sim_xor_u32" || name == "sim_sum_s32" || name == "c99_xor_u32") ? 4 : 2;
  std::vector<uint8_t> s1((size_t)n * esz + 32), s2((size_t)n * esz + 32), d((size_t)n * esz + 32, 0xAA);
  for (auto &x : s1) x = (uint8_t)r.next();
  for (auto &x : s2) x = (uint8_t)r.next();
  int p1 = (int)(int16_t)r.next();
  int acc = 0;
  uint8_t fill = (uint8_t)r.next();
  if (name == "sim_add_s16") sim_add_s16((orc_int16 *)d.data(), (orc_int16 *)s1.data(), (orc_int16 *)s2.data(), n);
  else if (name == "sim_sub_u8") sim_sub_u8(d.data(), s1.data(), s2.data(), n);
  else if (name == "sim_xor_u32") sim_xor_u32((orc_uint32 *)d.data(), (orc_uint32 *)s1.data(), (orc_uint32 *)s2.data(), n);
  else if (name == "sim_scale_s16") sim_scale_s16((orc_int16 *)d.data(), (orc_int16 *)s1.data(), p1, n);
  else if (name == "sim_sum_s32") sim_sum_s32(&acc, (orc_int32 *)s1.data(), n);
  else if (name == "old_add_u8") old_add_u8(d.data(), s1.data(), s2.data(), n);
  else if (name == "old_sub_s16") old_sub_s16((orc_int16 *)d.data(), (orc_int16 *)s1.data(), (orc_int16 *)s2.data(), n);
  else if (name == "c99_add_s16") c99_add_s16((orc_int16 *)d.data(), (orc_int16 *)s1.data(), (orc_int16 *)s2.data(), n);
  else if (name == "c99_xor_u32") c99_xor_u32((orc_uint32 *)d.data(), (orc_uint32 *)s1.data(), (orc_uint32 *)s2.data(), n);
  else if (name == "orc_memcpy") orc_memcpy(d.data(), s1.data(), n);
  else if (name == "orc_memset") orc_memset(d.data(), fill, n);
  bool ok = true;
  if (name == "sim_sum_s32") {
    int sum = 0;
    for (int i = 0; i < n; i++) { int v; memcpy(&v, s1.data() + 4 * i, 4); sum = (int)((unsigned)sum + (unsigned)v); }
    ok = sum == acc;
  } else {
    for (int i = 0; i < n && ok; i++) {
      uint32_t a = 0, b = 0, got = 0;
      memcpy(&a, s1.data() + (size_t)i * esz, esz);
      memcpy(&b, s2.data() + (size_t)i * esz, esz);
      memcpy(&got, d.data() + (size_t)i * esz, esz);
      uint32_t want = name == "orc_memset" ? fill : ref_elem(name, a, b, p1);
      if (got != want) ok = false;
    }
    // nothing beyond n elements is written
    for (size_t k = (size_t)n * esz; k < d.size() && ok; k++) if (d[k] != 0xAA) ok = false;
  }
  g_ctx->results_hash = mix2(g_ctx->results_hash, fnv(d.data(), d.size()) ^ (uint64_t)acc);
  if (!ok) fail("result", "wrapper-result-wrong:" + name, strf("task %d: generated wrapper %s returned wrong results (n=%d)", tid, name.c_str(), n));
}

// compile `spec` for the default target, compare native with emulation of a twin
static void run_and_check(int tid, OrcProgram *p, OrcCode *code, const ProgMeta &meta, OrcProgram *twin, RunMode mode, int n, uint64_t ds,
                          const char *what) {
  if (meta.unsafe_run) return;
  RunData a, b;
  make_inputs(meta, ds, n, a);
  make_inputs(meta, ds, n, b);
  run_with(p, code, meta, mode, a);
  reference_emulate(twin, meta, b);
  g_ctx->results_hash = mix2(g_ctx->results_hash, hash_outputs(meta, a));
  if (meta.has_float && mode != RUN_EMULATE) return;
  std::string d = compare_outputs(meta, a, b);
  if (!d.empty() && mode != RUN_EMULATE) {
    // same rule as in histsim: a native-vs-emulation disagreement that a pristine,
    // single-threaded process reproduces bit for bit is a pure function of the
    // program (C01's subject), not an effect of concurrency
    uint64_t ph = 0;
    int pst = pristine_native_hash(meta.spec, "default", 0xffffffffUL, a.n, ds, ph);
    if (pst == 2 || (pst == 1 && ph == hash_outputs(meta, a))) {
      g_ctx->c->count("probe.native_vs_emulation_defect_confirmed_in_pristine_process");
      d.clear();
    } else if (pst < 0) {
      g_ctx->c->count("probe.pristine_helper_unavailable");
      g_ctx->c->note("pristine helper unavailable: " + g_pristine_diag);
      d.clear();
    }
  }
  if (!d.empty()) fail("result", std::string("wrong-result:") + what, strf("task %d: %s of %s [%s]: %s", tid, what, meta.name.c_str(), meta.opnames.c_str(), d.c_str()));
}

static OrcProgram *make_twin(const std::string &spec, const std::string &name) {
  ProgMeta m;
  OrcProgram *t = build_program(spec, name + "_twin", &m);
  orc_program_compile_full(t, nullptr, 0);
  return t;
}

static void note_code_hash(int tid, const std::string &spec, OrcProgram *p) {
  OrcCode *code = p->orccode;
  if (!code || !code->chunk) return;
  uint64_t h = fnv(code->code, code->code_size);
  auto it = g_ctx->code_hash_by_spec.find(spec);
  if (it == g_ctx->code_hash_by_spec.end()) g_ctx->code_hash_by_spec[spec] = h;
  else if (it->second != h)
    fail("determinism", "concurrent-compile-differs", strf("task %d: the same program (%s) compiled concurrently by two tasks yields different machine code", tid, spec.c_str()));
}

// A task's own program, built either through the builder API or (via=bc) from static bytecode, the way
// orcc-generated code builds its programs: serialise, then orc_program_new_from_static_bytecode().
static OrcProgram *build_for_task(const std::vector<std::string> &w, const std::string &spec, const std::string &name, ProgMeta *meta) {
  OrcProgram *p = build_program(spec, name, meta);
  if (kv(w, "via", "api") != "bc") return p;
  OrcBytecode *bc = orc_bytecode_from_program(p);
  OrcProgram *q = orc_program_new_from_static_bytecode(bc->bytecode);
  orc_bytecode_free(bc);
  orc_program_free(p);
  orc_program_set_name(q, name.c_str());
  g_ctx->c->count("sched.programs_from_static_bytecode");
  return q;
}

static void op_private(int tid, const std::vector<std::string> &w, int opi) {
  std::string spec = kv(w, "spec");
  std::string name = strf("t%dp%d", tid, opi);
  ProgMeta meta;
  OrcProgram *p = build_for_task(w, spec, name, &meta);
  OrcProgram *twin = make_twin(spec, name);
  int res = orc_program_compile(p);
  if (!ORC_COMPILE_RESULT_IS_FATAL(res)) {
    if (ORC_COMPILE_RESULT_IS_SUCCESSFUL(res)) note_code_hash(tid, spec, p);
    run_and_check(tid, p, nullptr, meta, twin, RUN_EXEC, (int)kvi(w, "n"), kvu(w, "ds"), "private program run");
  }
  orc_program_free(p);
  orc_program_free(twin);
}

// compile (only) for a backend this machine cannot execute: other code generators, same compiler front end,
// their own tables and helpers; the result is a function of the program alone
static void op_xcompile(int tid, const std::vector<std::string> &w, int opi) {
  std::string spec = kv(w, "spec"), tgt = kv(w, "tgt", "mips");
  OrcTarget *t = orc_target_get_by_name(tgt.c_str());
  if (!t) return;
  ProgMeta meta;
  (void)opi;
  OrcProgram *p = build_program(spec, "xprog", &meta);   // (one name: the listing contains it)
  if (p->n_insns > 6) { orc_program_free(p); return; }   // (long programs crash some of these backends: C05's subject)
  unsigned flags = orc_target_get_default_flags(t) | (unsigned)kvu(w, "fset", 0);
  int res = orc_program_compile_full(p, t, flags);
  g_ctx->c->count("sched.foreign_backend_compiles");
  OrcCode *code = p->orccode;
  const char *a = orc_program_get_asm_code(p);
  uint64_t h = mix2(mix2((uint64_t)res, code && code->chunk ? fnv(code->code, code->code_size) : 0), a ? fnv(a, strlen(a)) : 0);
  std::string key = spec + "@" + tgt + "/" + kv(w, "fset", "0");
  // (a compile that was refused code memory by the simulated OS of this run falls back: only completed ones compare)
  if (!ORC_COMPILE_RESULT_IS_SUCCESSFUL(res)) { orc_program_free(p); return; }
  auto it = g_ctx->code_hash_by_spec.find(key);
  if (it == g_ctx->code_hash_by_spec.end()) g_ctx->code_hash_by_spec[key] = h;
  else if (it->second != h)
    fail("determinism", "concurrent-compile-differs", strf("task %d: the same program (%s) compiled for %s by two tasks yields different result, machine code or listing", tid, spec.c_str(), tgt.c_str()));
  orc_program_free(p);
}

static void op_churn(int tid, const std::vector<std::string> &w, int opi) {
  std::string spec = kv(w, "spec");
  std::string name = strf("t%dc%d", tid, opi);
  ProgMeta meta;
  OrcProgram *p = build_for_task(w, spec, name, &meta);
  OrcProgram *twin = make_twin(spec, name);
  int res = orc_program_compile(p);
  if (!ORC_COMPILE_RESULT_IS_FATAL(res)) {
    OrcCode *code = orc_program_take_code(p);
    orc_program_free(p);
    p = nullptr;
    if (code) {
      run_and_check(tid, nullptr, code, meta, twin, RUN_EXEC, (int)kvi(w, "n"), kvu(w, "ds"), "detached code run");
      orc_code_free(code);
    }
  }
  if (p) orc_program_free(p);
  orc_program_free(twin);
}

static void op_publish(int tid, const std::vector<std::string> &w, int opi) {
  size_t si = kvi(w, "slot") % g_ctx->slots.size();
  std::string spec = kv(w, "spec");
  std::string name = strf("t%ds%d", tid, opi);
  auto meta = std::make_shared<ProgMeta>();
  OrcProgram *p = build_for_task(w, spec, name, meta.get());
  OrcProgram *twin = make_twin(spec, name);
  int res = orc_program_compile(p);
  OrcCode *code = ORC_COMPILE_RESULT_IS_FATAL(res) ? nullptr : orc_program_take_code(p);
  orc_program_free(p);
  // harness-level hand-off (atomic: no yield inside harness code)
  Slot &s = g_ctx->slots[si];
  if (code && !s.code) {
    s.code = code; s.meta = meta; s.twin = twin; s.users = 0; s.spec = spec;
    rt::publish((int)si);
    g_ctx->c->count("sched.published");
  } else {
    if (code) orc_code_free(code);
    orc_program_free(twin);
  }
}

static void op_use(int tid, const std::vector<std::string> &w) {
  size_t si = kvi(w, "slot") % g_ctx->slots.size();
  Slot &s = g_ctx->slots[si];
  if (!s.code) return;
  rt::consume((int)si);
  s.users++;
  OrcCode *code = s.code;
  auto meta = s.meta;
  OrcProgram *twin = s.twin;
  RunMode mode = kv(w, "mode", "exec") == "emulate" ? RUN_EMULATE : RUN_EXEC;
  run_and_check(tid, nullptr, code, *meta, twin, mode, (int)kvi(w, "n"), kvu(w, "ds"), "shared code run");
  g_ctx->c->count(mode == RUN_EMULATE ? "sched.shared_code_emulated" : "sched.shared_code_run");
  s.users--;
  rt::publish((int)si);   // our uses happen-before a later take/free
}

static void op_take(int tid, const std::vector<std::string> &w) {
  size_t si = kvi(w, "slot") % g_ctx->slots.size();
  Slot &s = g_ctx->slots[si];
  if (!s.code || s.users > 0) return;
  rt::consume((int)si);
  OrcCode *code = s.code;
  auto meta = s.meta;
  OrcProgram *twin = s.twin;
  s.code = nullptr; s.twin = nullptr; s.meta.reset();
  run_and_check(tid, nullptr, code, *meta, twin, RUN_EXEC, (int)kvi(w, "n"), kvu(w, "ds"), "taken code run");
  orc_code_free(code);     // last user frees
  orc_program_free(twin);
  g_ctx->c->count("sched.taken_and_freed_by_other_task");
}

struct Held { OrcCode *code; std::shared_ptr<ProgMeta> meta; OrcProgram *twin; };

static void op_hoard(int tid, const std::vector<std::string> &w, int opi, std::vector<Held> &held) {
  int k = (int)kvi(w, "k", 4);
  Rng r(kvu(w, "seed", 1));
  for (int i = 0; i < k; i++) {
    std::string spec = strf("gen:%llu:%d:8:1", (unsigned long long)(r.next() >> 16), 14 + (int)r.below(14));
    std::string name = strf("t%dh%d_%d", tid, opi, i);
    auto meta = std::make_shared<ProgMeta>();
    OrcProgram *p = build_program(spec, name, meta.get());
    OrcProgram *twin = make_twin(spec, name);
    int res = orc_program_compile(p);
    OrcCode *code = ORC_COMPILE_RESULT_IS_FATAL(res) ? nullptr : orc_program_take_code(p);
    orc_program_free(p);
    if (code) held.push_back(Held{code, meta, twin}); else orc_program_free(twin);
  }
  if (!held.empty()) {
    Held &h = held[r.below(held.size())];
    run_and_check(tid, nullptr, h.code, *h.meta, h.twin, RUN_EXEC, (int)kvi(w, "n"), kvu(w, "ds"), "hoarded code run");
  }
  g_ctx->c->count("sched.hoard_ops");
}

static void task_main(int tid) {
  std::vector<Held> held;
  auto &ops = g_ctx->task_ops[tid];
  for (size_t i = 0; i < ops.size(); i++) {
    auto &w = ops[i];
    const std::string &op = w[2];
    // Direct API users initialise the library first, as the API contract asks
    // (concurrent orc_init() calls are themselves part of what is raced);
    // generated wrappers are called cold -- they initialise through
    // orc_program_new() inside their once block.
    if (op != "wrapper") orc_init();
    if (op == "init") {}
    else if (op == "wrapper") op_wrapper(tid, w);
    else if (op == "private") op_private(tid, w, (int)i);
    else if (op == "churn") op_churn(tid, w, (int)i);
    else if (op == "xcompile") op_xcompile(tid, w, (int)i);
    else if (op == "publish") op_publish(tid, w, (int)i);
    else if (op == "use") op_use(tid, w);
    else if (op == "take") op_take(tid, w);
    else if (op == "hoard") op_hoard(tid, w, (int)i, held);
    else if (op == "oswindow") {
      bool deny = kv(w, "state", "deny") == "deny";
      fs::set_dir("/tmp", deny ? fs::P_NOEXEC : fs::P_OK);
      fs::set_execmem(!deny);
      g_ctx->c->count(deny ? "sched.os_window_opened" : "sched.os_window_closed");
    }
    g_ctx->ops_done++;
    rt::yield_hint();
  }
  // everything this task kept alive is run once more (its bytes must have survived the others) and freed
  for (auto &h : held) {
    run_and_check(tid, nullptr, h.code, *h.meta, h.twin, RUN_EXEC, 16, 1234 + tid, "hoarded code run at task end");
    orc_code_free(h.code);
    orc_program_free(h.twin);
  }
}

// what a single initialisation registers (measured in a pristine grandchild)
static std::string registry_shape() {
  std::string s;
  for (auto tn : {"mmx", "sse", "avx", "c", "neon", "mips", "altivec", "c64x-c"}) {
    OrcTarget *t = orc_target_get_by_name(tn);
    s += strf("%s=%d;", tn, t ? t->n_rule_sets : -1);
  }
  OrcOpcodeSet *sys = orc_opcode_set_get("sys");
  s += strf("sys=%d;", sys ? sys->n_opcodes : -1);
  // a second registration of the built-in set would be found at major 1
  s += strf("major=%d;", sys ? sys->opcode_major : -1);
  return s;
}
static std::string pristine_registry_shape() {
  int pfd[2];
  if (pipe(pfd) != 0) return "";
  pid_t pid = fork();
  if (pid == 0) {
    close(pfd[0]);
    orc_init();
    std::string s = registry_shape();
    ssize_t wr = write(pfd[1], s.data(), s.size());
    (void)wr;
    _exit(0);
  }
  close(pfd[1]);
  std::string out;
  char buf[512];
  ssize_t k;
  g_waiting_for_grandchild++;
  while ((k = read(pfd[0], buf, sizeof buf)) > 0) out.append(buf, k);
  close(pfd[0]);
  int st;
  waitpid(pid, &st, 0);
  g_waiting_for_grandchild--;
  return out;
}

static void sched_run(const std::vector<std::string> &plan, Child &c) {
  Ctx ctx;
  ctx.c = &c;
  g_ctx = &ctx;
  std::vector<std::string> cfg_w;
  rt::Config rc;
  bool explicit_schedule = false;
  for (auto &line : plan) {
    auto w = words(line);
    if (w.empty()) continue;
    if (w[0] == "cfg") cfg_w = w;
    else if (w[0] == "replay") explicit_schedule = true;
    else if (w[0] == "sw" && w.size() >= 4)
      rc.schedule.push_back(rt::SchedEntry{atoi(w[1].c_str()), strtoull(w[2].c_str(), nullptr, 10), atoi(w[3].c_str())});
    else if (w[0][0] == 't' && w.size() >= 3 && w[1] == "op") {
      size_t t = atoi(w[0].c_str() + 1);
      if (ctx.task_ops.size() <= t) ctx.task_ops.resize(t + 1);
      ctx.task_ops[t].push_back(w);
    }
  }
  int ntasks = (int)kvi(cfg_w, "tasks", 2);
  if ((int)ctx.task_ops.size() < ntasks) ctx.task_ops.resize(ntasks);
  ntasks = std::min<int>(ctx.task_ops.size(), 16);
  std::string st = kv(cfg_w, "strategy", "sync");
  if (st == "enum") {
    for (auto &item : split(kv(cfg_w, "enum", ""), ',')) {
      unsigned long long k = 0; int to = 0;
      if (sscanf(item.c_str(), "%llu:%d", &k, &to) == 2) rc.enum_points.push_back({k, to});
    }
  }
  rc.strategy = explicit_schedule || !rc.schedule.empty() || st == "replay" ? rt::S_REPLAY : st == "enum" ? rt::S_ENUM
                : st == "random" ? rt::S_RANDOM : st == "pct" ? rt::S_PCT : st == "conflict" ? rt::S_CONFLICT : rt::S_SYNC;
  rc.p_den = (int)kvi(cfg_w, "p", 64);
  rc.pct_d = (int)kvi(cfg_w, "pct_d", 2);
  rc.seed = kvu(cfg_w, "schedseed", 1);
  ctx.slots.resize(std::max<int>(1, (int)kvi(cfg_w, "slots", 1)));

  unsetenv("ORC_CODE"); unsetenv("ORC_DEBUG"); unsetenv("ORC_BACKEND"); unsetenv("ORC_TARGET");
  unsetenv("XDG_RUNTIME_DIR"); unsetenv("HOME"); unsetenv("TMPDIR");
  fs::reset();
  fs::enable(true);
  fs::set_dir("/tmp", fs::P_OK);
  std::string fsmode = kv(cfg_w, "fs", "ok");
  if (fsmode == "flaky-mmap") fs::set_flaky(fs::K_MMAP, 3);
  else if (fsmode == "flaky-mkstemp") fs::set_flaky(fs::K_MKSTEMP, 2);
  else if (fsmode == "noexec-dirs") {
    setenv("XDG_RUNTIME_DIR", "/sim/xdg", 1); setenv("HOME", "/sim/home", 1);
    fs::set_dir("/sim/xdg", fs::P_NOEXEC); fs::set_dir("/sim/home", fs::P_FULL); fs::set_dir("/tmp", fs::P_NOEXEC);
  } else if (fsmode == "all-denied") { fs::set_dir("/tmp", fs::P_NOEXEC); fs::set_execmem(false); }
  // the debug sink must be in place before any task runs (setting it is not part of the race)
  int dbg = (int)kvi(cfg_w, "debug", 0);
  if (dbg > 0) {
    // a member with the library's own message printing switched on (as ORC_DEBUG=<level> does for a real
    // application): the default print function stays in place and writes to a discarded stderr
    setenv("ORC_DEBUG", strf("%d", dbg).c_str(), 1);
    int nul = open("/dev/null", O_WRONLY);
    if (nul >= 0) { dup2(nul, 2); close(nul); }
    c.count("sched.library_debug_output_on");
  } else install_debug_sink();
  std::string shape_ref = pristine_registry_shape();

  rt::init(ntasks, rc);
  for (int t = 0; t < ntasks; t++) rt::spawn(t, task_main);
  std::string end = rt::run_all();
  const rt::Stats &s = rt::stats();
  c.event("end=%s ops=%d accesses=%llu yields=%llu switches=%llu syncs=%llu results=%016llx", end.c_str(), ctx.ops_done,
          (unsigned long long)s.accesses, (unsigned long long)s.yields, (unsigned long long)s.switches, (unsigned long long)s.sync_ops,
          (unsigned long long)ctx.results_hash);
  c.res.steps += s.yields;
  c.count("sched.accesses", s.accesses);
  c.count("sched.switches", s.switches);
  c.count("sched.sync_ops", s.sync_ops);
  c.count("sched.mutex_blocks", s.mutex_blocks);
  c.count("sched.atomic_ops", s.atomic_ops);
  c.count(std::string("sched.strategy.") + st);
  c.count(std::string("sched.fs.") + fsmode);
  c.count("fault.flaky_fired", fs::flaky_fired());
  if (fs::open_unmapped_fds() != 0)
    c.violation("fd-leak", "descriptor-open-after-run", strf("%d simulated descriptor(s) still open after all tasks finished although no mapping made from them is alive (%s)", fs::open_unmapped_fds(), fs::open_fd_desc().c_str()));
  c.count("sched.tasks", ntasks);
  c.state(s.interleaving_hash);
  if (ntasks >= 2 && s.switches > 0) c.res.dkey = s.interleaving_hash ? s.interleaving_hash : 1;   // evidence: distinct interleavings
  for (auto &e : rt::realised()) c.res.sched.push_back(strf("sw %d %llu %d", e.task, (unsigned long long)e.yield, e.next));
  c.note(strf("tasks=%d strategy=%s switches=%llu deviations=%zu interleaving=%016llx", ntasks, st.c_str(), (unsigned long long)s.switches,
              rt::realised().size(), (unsigned long long)s.interleaving_hash));

  // ---- oracles -------------------------------------------------------------------
  if (starts(end, "deadlock")) c.violation("deadlock", "deadlock", "all unfinished tasks are blocked: " + end);
  if (end == "budget") c.violation("no-progress", "step-budget-exhausted", strf("plans did not finish within %llu scheduler steps", (unsigned long long)rc.max_steps));
  for (auto &r : rt::races()) c.violation("race", r.key, r.msg, true);
  if (!ctx.failure_class.empty()) c.violation(ctx.failure_class, ctx.failure_key, ctx.failure_msg);
  for (int i = 0; i < NWRAP; i++) {
    c.event("wrapper %s calls=%d inits=%d", kWrappers[i], g_call_count[i], g_init_count[i]);
    if (g_call_count[i] > 1 && g_init_count[i] == 1) c.count("probe.wrapper_first_call_shared");
    int expect = g_call_count[i] > 0 ? 1 : 0;
    if (g_init_count[i] != expect)
      c.violation("once", strf("wrapper-initialised-%s", g_init_count[i] > expect ? "more-than-once" : "less-than-once"),
                  strf("generated wrapper %s was called %d times by the tasks and its initialisation block ran %d times", kWrappers[i], g_call_count[i], g_init_count[i]));
  }
  if (ctx.ops_done > 0 && !shape_ref.empty()) {
    bool inited = orc_opcode_set_get("sys") != nullptr;
    if (inited) {
      std::string shape = registry_shape();
      c.event("registry %s", shape.c_str());
      if (shape != shape_ref)
        c.violation("init", "registries-differ-from-single-init", "targets / rule sets / opcode sets after concurrent first use: " + shape + " but a single initialisation gives " + shape_ref);
    }
  }
  // code memory: structural invariants at the quiescent point, published functions disjoint
  {
    Layout l;
    walk_codemem(l);
    std::string key, msg = check_layout(l, key);
    if (!msg.empty()) c.violation("layout", key, msg);
    struct Iv { int r, lo, hi; };
    std::vector<Iv> ivs;
    for (auto &sl : ctx.slots)
      if (sl.code && sl.code->chunk) {
        int r, off;
        if (!l.locate(sl.code->code, r, off)) c.violation("layout", "published-code-outside-region", "a published code object lies outside every region");
        else ivs.push_back({r, off, off + sl.code->code_size});
      }
    for (size_t i = 0; i < ivs.size(); i++)
      for (size_t j = i + 1; j < ivs.size(); j++)
        if (ivs[i].r == ivs[j].r && ivs[i].lo < ivs[j].hi && ivs[j].lo < ivs[i].hi)
          c.violation("layout", "live-functions-overlap", "two published code objects overlap in code memory");
    c.state(l.signature());
    // free what is still published, then every non-wrapper chunk must be free again
    for (auto &sl : ctx.slots) if (sl.code) { orc_code_free(sl.code); orc_program_free(sl.twin); sl.code = nullptr; }
    walk_codemem(l);
    msg = check_layout(l, key);
    if (!msg.empty()) c.violation("layout", key, msg);
    int wrappers_inited = 0;
    for (int i = 0; i < NWRAP; i++) if (g_init_count[i] > 0) wrappers_inited += g_init_count[i];
    // old-style wrappers keep their OrcProgram (and its code); new-style keep the OrcCode: one chunk each
    if (l.used_chunks() > wrappers_inited)
      c.violation("layout", "chunks-still-used-after-free", strf("%d chunks are still marked used although only %d wrapper functions are alive", l.used_chunks(), wrappers_inited));
  }
}

static bool sched_deletable(const std::string &line) { return (line[0] == 't' && line.find(" op ") != std::string::npos) || starts(line, "sw "); }
static std::vector<std::string> sched_simplify(const std::string &line) {
  std::vector<std::string> out;
  auto w = words(line);
  if (w.empty()) return out;
  auto with = [&](const char *key, const std::string &val) {
    std::string s;
    for (auto &x : w) s += (s.empty() ? "" : " ") + (starts(x, (std::string(key) + "=").c_str()) ? std::string(key) + "=" + val : x);
    if (s != line) out.push_back(s);
  };
  if (w.size() > 2 && w[1] == "op") { with("n", "4"); if (w[2] == "private" || w[2] == "churn" || w[2] == "publish") with("spec", "fixed:addw"); }
  return out;
}
static void sched_prepare() { corpus_load(); }

const Engine sched = {"sched", sched_gen, sched_run, sched_deletable, sched_simplify, sched_prepare};

}  // namespace

const Engine *const sched_engine = &sched;

}  // namespace sim
