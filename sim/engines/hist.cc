// histsim / faultsim: single-task operation histories over programs, code
// objects and executors, with a simulated file/mapping layer, checked against
// reference models after every operation.  Serves C06, C09, C16, C17.
#include "../core/sim.h"
#include "../core/orcrun.h"
#include "../seams/filesim.h"
#include "../seams/allocsim.h"

#include <algorithm>
#include <dirent.h>
#include <errno.h>
#include <memory>
#include <sys/resource.h>
#include <sys/wait.h>
#include <unistd.h>

extern "C" int __lsan_do_recoverable_leak_check(void) __attribute__((weak));

namespace sim {
namespace {

// ---------------------------------------------------------------------------
// plan generation
// ---------------------------------------------------------------------------
struct W { const char *op; int w; };

static std::string pick_weighted(Rng &r, const std::vector<W> &ws) {
  int tot = 0;
  for (auto &w : ws) tot += w.w;
  int x = (int)r.below(tot);
  for (auto &w : ws) { if (x < w.w) return w.op; x -= w.w; }
  return ws[0].op;
}

static std::string gen_spec(Rng &r, int maxlen, int maxsize, bool allow_corpus, bool allow_float_fixed) {
  int c = (int)r.below(10);
  if (allow_corpus && c < 3) return strf("corpus:%d", (int)r.below(100000));
  if (allow_float_fixed && c == 3) {
    static const char *fx[] = {"addw", "subb", "mulll", "addf", "cmpltf", "convfl", "acc2", "accl", "copyb", "regpressure", "allregs", "addq"};
    return strf("fixed:%s", fx[r.below(maxsize >= 8 ? 12 : 11)]);
  }
  int len = 1 + (int)r.below(maxlen);
  unsigned fl = 0;
  if (r.chance(1, 2)) fl |= 1;
  if (r.chance(1, 6)) fl |= 2;
  if (r.chance(1, 5)) fl |= 4;
  if (r.chance(1, 5)) fl |= 8;
  if (r.chance(1, 3)) fl |= 16;
  if (r.chance(1, 8)) fl |= 32;
  return strf("gen:%llu:%d:%d:%u", (unsigned long long)(r.next() >> 16), len, maxsize, fl);
}

static const char *errs_mkstemp[] = {"EACCES", "ENOENT", "EMFILE", "ENOSPC", "EROFS"};
static const char *errs_ftruncate[] = {"ENOSPC", "EIO", "EPERM"};
static const char *errs_mmap[] = {"EPERM", "EACCES", "ENOMEM", "ENODEV"};

static std::string gen_fault(Rng &r, int maxnth) {
  int kind = (int)r.below(3);
  int nth = (int)r.below(maxnth);
  const char *e = kind == 0 ? errs_mkstemp[r.below(5)] : kind == 1 ? errs_ftruncate[r.below(3)] : errs_mmap[r.below(4)];
  return strf("fault=%s:%d:%s", fs::kind_name(kind), nth, e);
}

static std::string dir_policy(Rng &r, int bad_pct) {
  if ((int)r.below(100) >= bad_pct) return "ok";
  static const char *p[] = {"missing", "unwritable", "noexec", "full", "emfile"};
  return p[r.below(5)];
}

// ---- C06: systematic enumeration of single and paired failure positions ----------
// The region-allocation chain tries XDG_RUNTIME_DIR, HOME, TMPDIR, /tmp (each:
// mkstemp, ftruncate, exec mmap, write mmap) and finally an anonymous RWX map.
// An enumerated cell is: the first d directories are persistently broken in one
// of three ways, one transient fault hits a chosen stage of the first healthy
// step, and optionally a second transient fault hits a chosen stage of the step
// after it; in the init probe or in the first compile.
struct EnumCell { int d, broken, stage1, stage2, phase; };
static const int kEnumCells = 5 * 3 * 4 * 5 * 2;  // d x broken x stage1 x (none + 4 stage2) x phase
static EnumCell enum_cell(uint64_t idx) {
  EnumCell e;
  e.phase = idx % 2; idx /= 2;
  e.stage2 = (int)(idx % 5) - 1; idx /= 5;
  e.stage1 = idx % 4; idx /= 4;
  e.broken = idx % 3; idx /= 3;
  e.d = idx % 5;
  return e;
}
static void enum_plan_bits(const EnumCell &e, std::string &dirs, std::string &faults) {
  static const char *bk[] = {"missing", "noexec", "full"};
  const char *dn[] = {"xdg", "home", "tmpdir", "tmp"};
  dirs = "dirs";
  for (int i = 0; i < 4; i++) dirs += strf(" %s=%s", dn[i], i < e.d ? bk[e.broken] : "ok");
  dirs += " execmem=1";
  // calls consumed by the broken directories
  int mk = std::min(e.d, 4), ft = e.broken == 0 ? 0 : std::min(e.d, 4), mm = e.broken == 1 ? std::min(e.d, 4) : 0;
  static const char *errs[4] = {"EACCES", "ENOSPC", "EPERM", "ENOMEM"};
  auto add = [&](int stage, bool file_step) {
    if (!file_step) { faults += strf(" fault=mmap:%d:%s", mm, "EACCES"); mm++; return; }  // the anonymous map
    switch (stage) {
      case 0: faults += strf(" fault=mkstemp:%d:%s", mk, errs[0]); mk++; break;
      case 1: faults += strf(" fault=ftruncate:%d:%s", ft, errs[1]); mk++; ft++; break;
      case 2: faults += strf(" fault=mmap:%d:%s", mm, errs[2]); mk++; ft++; mm++; break;
      default: faults += strf(" fault=mmap:%d:%s", mm + 1, errs[3]); mk++; ft++; mm += 2; break;
    }
  };
  faults.clear();
  add(e.stage1, e.d < 4);
  if (e.stage2 >= 0 && e.d < 4) add(e.stage2, e.d + 1 < 4);
}

static std::vector<std::string> hist_gen(const GenArgs &ga) {
  std::vector<std::string> pl;
  Rng sw = stream(ga.seed, ST_SWARM), pr = stream(ga.seed, ST_PLAN), fr = stream(ga.seed, ST_FAULT),
      dr = stream(ga.seed, ST_DATA);
  const std::string &P = ga.prop;
  bool thorough = ga.tier == "thorough";
  pl.push_back("prop " + P);
  pl.push_back("engine hist");
  pl.push_back(strf("seed %llu", (unsigned long long)ga.seed));

  // ---- swarm configuration ------------------------------------------------
  std::string orc_code = "-";
  int debug_env = -1;
  bool faults = false, use_corpus = sw.chance(2, 3);
  int bad_dir_pct = 0;
  int cycles = 1;
  int nops = 20;
  bool poison = sw.chance(2, 3), sink = sw.chance(1, 2);
  std::string oracles;
  std::vector<W> mix;
  int maxlen = 12;
  bool jit_impossible = false;
  bool rawalloc = false;
  int nsubjects = 0;
  bool sweep_member = false;
  if (P == "C06") {
    oracles = "res,fd,backup";
    static const char *codes[] = {"-", "-", "-", "emulate", "backup", "debug", "backup,emulate", "debug,backup"};
    orc_code = codes[sw.below(8)];
    // index 0 of every batch member mod 4 is the fault-free configuration (no relaxation)
    faults = (ga.index % 4) != 0;
    bad_dir_pct = faults ? (int)sw.below(70) : 0;
    jit_impossible = faults && sw.chance(1, 8);
    nops = 5 + (int)sw.below(thorough ? 56 : 36);
    maxlen = sw.chance(1, 4) ? 40 : 10;
    mix = {{"new", 14}, {"compile", 26}, {"take", 8}, {"run", 22}, {"runc", 12}, {"freep", 6}, {"freec", 5},
           {"reset", 3}, {"policy", faults ? 4 : 0}, {"append", 3}, {"debug", 2}};
    if (sw.chance(1, 4)) debug_env = (int)sw.below(6);
  } else if (P == "C09") {
    oracles = "res,layout,bytes,reuse,growth";
    faults = sw.chance(1, 5);
    bad_dir_pct = sw.chance(1, 4) ? 40 : 0;
    cycles = sw.chance(1, 3) ? 5 : 1;
    nops = 20 + (int)sw.below(thorough ? 181 : 101);
    if (cycles > 1) nops = std::min(nops, 60);
    maxlen = sw.chance(1, 2) ? 40 : 15;
    rawalloc = sw.chance(2, 3);
    // a tenth of the histories keep the backing files (ORC_CODE=debug): frees are then documented no-ops, so
    // a few large blocks are enough to spread live functions over several regions
    if (sw.chance(1, 10)) orc_code = "debug";
    poison = false;
    mix = {{"new", 16}, {"compile", 26}, {"take", 9}, {"run", 8}, {"runc", 6}, {"freep", 10}, {"freec", 9},
           {"reset", 3}, {"rawalloc", rawalloc ? 12 : 0}, {"freeall", 1}, {"policy", faults ? 2 : 0}, {"debug", 2}, {"append", 3}};
  } else if (P == "C16") {
    oracles = "res,growth,heap,lsan,fd";
    static const char *codes[] = {"-", "-", "-", "emulate", "backup", "debug", "backup,emulate"};
    orc_code = codes[sw.below(7)];
    faults = sw.chance(1, 4);
    bad_dir_pct = faults ? 30 : 0;
    cycles = 5;
    nops = 8 + (int)sw.below(thorough ? 73 : 43);
    maxlen = 14;
    mix = {{"new", 14}, {"compile", 24}, {"take", 9}, {"run", 14}, {"runc", 9}, {"freep", 9}, {"freec", 7},
           {"reset", 7}, {"debug", 2}, {"append", 6}, {"rawalloc", sw.chance(1, 3) ? 8 : 0}, {"parse", use_corpus ? 6 : 0}};
    if (sw.chance(1, 4)) debug_env = (int)sw.below(6);
    if (sw.chance(1, 4)) {
      // allocator-churn member: many small functions handed out and freed in arbitrary order, so that chunks are
      // split between live neighbours and merged in both directions while code objects outlive their programs
      nops = 40 + (int)sw.below(thorough ? 81 : 41);
      cycles = 5;
      maxlen = 8;
      mix = {{"new", 16}, {"compile", 26}, {"take", 18}, {"runc", 10}, {"freep", 12}, {"freec", 16}, {"run", 4}, {"rawalloc", 6}};
    }
  } else {  // C17
    oracles = "det";
    static const char *codes[] = {"-", "-", "-", "-", "debug"};
    orc_code = codes[sw.below(5)];
    debug_env = sw.chance(1, 3) ? (int)sw.below(6) : -1;
    faults = sw.chance(1, 3);   // transient OS failures during *unrelated* compiles are history too
    bad_dir_pct = sw.chance(1, 4) ? 30 : 0;
    poison = true;
    nops = 15 + (int)sw.below(thorough ? 106 : 56);
    maxlen = sw.chance(1, 2) ? 30 : 12;
    nsubjects = 2 + (int)sw.below(3);
    mix = {{"new", 12}, {"compile", 22}, {"take", 6}, {"run", 8}, {"runc", 4}, {"freep", 8}, {"freec", 6},
           {"reset", 4}, {"debug", 6}, {"subject", 22}, {"rawalloc", faults ? 12 : 4}, {"policy", faults ? 5 : 0},
           {"regset", 1}};
    // an eighth of the plans are opcode-sweep members: every built-in opcode, compiled for one backend (also the
    // ones this machine cannot execute, and flag sets other than this machine's), twice, around a short history
    sweep_member = sw.chance(1, 8);
    if (sweep_member) { nops = 6 + (int)sw.below(12); nsubjects = 1; }
  }
  if (orc_code.find("debug") != std::string::npos) {
    // frees are documented no-ops in debug mode: no reuse/growth statements apply
    cycles = 1;
  }

  // environment / directories
  std::string dirs = "dirs";
  const char *dn[] = {"xdg", "home", "tmpdir"};
  for (int i = 0; i < 3; i++) {
    if (sw.chance(1, 3)) dirs += strf(" %s=unset", dn[i]);
    else dirs += strf(" %s=%s", dn[i], jit_impossible ? "noexec" : dir_policy(sw, bad_dir_pct).c_str());
  }
  dirs += strf(" tmp=%s", jit_impossible ? "noexec" : dir_policy(sw, bad_dir_pct).c_str());
  dirs += strf(" execmem=%d", jit_impossible ? 0 : (bad_dir_pct && sw.chance(1, 3)) ? 0 : 1);
  bool enumerated = P == "C06" && ga.index < (uint64_t)kEnumCells;
  EnumCell cell = enum_cell(ga.index);
  std::string enum_faults;
  if (enumerated) {
    enum_plan_bits(cell, dirs, enum_faults);
    orc_code = sw.chance(1, 5) ? "debug" : "-";   // modes in which the chain actually runs
    faults = true;
  }
  std::string backend_env = "-";
  if ((P == "C16" || P == "C06") && sw.chance(1, 5)) {
    static const char *be[] = {"sse", "avx", "mmx", "c", "nosuch"};
    backend_env = be[sw.below(5)];
  }
  pl.push_back(strf("env ORC_CODE=%s ORC_DEBUG=%s ORC_BACKEND=%s", orc_code.c_str(),
                    debug_env < 0 ? "-" : strf("%d", debug_env).c_str(), backend_env.c_str()));
  pl.push_back(dirs);
  pl.push_back(strf("cfg poison=%d sink=%d cycles=%d oracles=%s refchild=%d", poison, sink, cycles, oracles.c_str(),
                    nsubjects > 0));

  if (sweep_member) {
    static const struct { const char *t; unsigned long fset; } sweeps[] = {
        {"sse", 0}, {"avx", 0}, {"mmx", 0}, {"neon", 0}, {"neon", 0x8 /* ORC_TARGET_NEON_64BIT */}, {"neon", 0x8},
        {"mips", 0}, {"altivec", 0}, {"c", 0}, {"c64x-c", 0}, {"sse", 0}, {"avx", 0}};
    auto &sp = sweeps[sw.below(12)];
    pl.push_back(strf("sweep target=%s fset=%#lx fmask=0xffffffff order=%llu", sp.t, sp.fset, (unsigned long long)(sw.next() >> 24)));
  }
  // subjects (C17)
  bool float_watch = false;
  static const char *native_t[] = {"avx", "sse", "mmx", "default"};
  static const char *foreign_t[] = {"c", "c64x-c", "neon", "mips", "altivec"};
  for (int s = 0; s < nsubjects; s++) {
    std::string tgt = sw.chance(3, 4) ? native_t[sw.below(4)] : foreign_t[sw.below(5)];
    bool foreign = tgt == "c" || tgt == "c64x-c" || tgt == "neon" || tgt == "mips" || tgt == "altivec";
    int maxsize = tgt == "mmx" ? 4 : 8;
    std::string spec = gen_spec(sw, foreign ? 6 : maxlen, maxsize, use_corpus && tgt != "mmx", true);
    if (spec == "fixed:regpressure" || spec == "fixed:allregs") spec = "fixed:addw";
    // a sixth of the plans watch a program whose only float operation is a comparison or conversion (its results
    // must not depend on the floating-point control state other kernels leave behind)
    if (s == 0 && !foreign && tgt != "mmx" && sw.chance(1, 6)) { spec = sw.chance(1, 2) ? "fixed:cmpltf" : "fixed:convfl"; float_watch = true; }   // that program is for mmx register exhaustion only (see the compile op)
    // now and then: a 64-bit opcode fed from a 4-byte parameter (its upper half is nobody's business)
    if (!foreign && tgt != "mmx" && !float_watch && sw.chance(1, 10)) spec = "fixed:addqp4";
    unsigned long fmask = 0xffffffffUL;
    if ((tgt == "sse" || tgt == "mmx") && sw.chance(1, 3)) {
      // drop a random subset of optional CPU feature bits (bits 1.. of the flag word), keep base + 64bit/frame bits
      fmask = ~((unsigned long)(sw.below(32) << 1)) & 0xffffffffUL;
    }
    unsigned long fset = (tgt == "neon" && sw.chance(1, 2)) ? 0x8 : 0;   // 64-bit NEON code
    pl.push_back(strf("subject s=%d spec=%s target=%s fmask=0x%lx fset=%#lx", s, spec.c_str(), tgt.c_str(), fmask, fset));
  }

  // init, possibly under faults
  if (enumerated) {
    pl.push_back(cell.phase == 0 ? "init" + enum_faults : std::string("init"));
    // the first compile creates the first region: the chain runs again, with live objects around it later
    pl.push_back(strf("op new spec=%s backup=%d", gen_spec(pr, 6, 8, false, false).c_str(), (int)(ga.index / 2 % 2)));
    pl.push_back("op compile p=0 target=default fmask=0xffffffff" + (cell.phase == 1 ? enum_faults : std::string()));
    pl.push_back(strf("op run p=0 mode=exec n=0 ds=%llu", (unsigned long long)(dr.next() >> 20)));
    pl.push_back("op take p=0");
    pl.push_back(strf("op runc c=0 mode=%s n=0 ds=%llu", ga.index % 3 ? "direct" : "exec", (unsigned long long)(dr.next() >> 20)));
  } else {
    std::string l = "init";
    // (C17: never at init -- a failed init probe switches JIT off for the whole process by design, which is
    // a different configuration from the zero-history reference, not a different history)
    if (faults && P != "C17" && fr.chance(1, 2)) {
      int nf = 1 + (int)fr.below(2);
      for (int i = 0; i < nf; i++) l += " " + gen_fault(fr, 5);
    }
    pl.push_back(l);
  }

  // ---- C09: exhaustive enumeration of short alloc/free sequences -------------------
  // Alphabet: allocate one of four chunk sizes, free the oldest / the newest / the
  // middle live chunk.  Every sequence of length D over it is executed (many per run,
  // separated by "free everything"), against the same interval-set model as the
  // random histories.  D = 5 in the quick tier, 6 in the thorough tier.
  if (P == "C09") {
    const int A = 7, D = thorough ? 6 : 5, per_run = thorough ? 60 : 40;
    uint64_t total = 1;
    for (int i = 0; i < D; i++) total *= A;
    uint64_t first = ga.index * per_run;
    if (first < total) {
      static const int sizes[4] = {16, 4096, 30000, 65536};
      for (uint64_t s = first; s < first + per_run && s < total; s++) {
        uint64_t x = s;
        for (int k = 0; k < D; k++, x /= A) {
          int sym = (int)(x % A);
          if (sym < 4) pl.push_back(strf("op rawalloc size=%d fill=%llu", sizes[sym], (unsigned long long)(s * 8 + k)));
          else pl.push_back(strf("op freec c=%s", sym == 4 ? "0" : sym == 5 ? "newest" : "middle"));
        }
        pl.push_back("op freeall");
      }
      // rewrite the configuration lines for this mode: no faults, one cycle, everything ok
      for (auto &l : pl) {
        if (starts(l, "env ")) l = "env ORC_CODE=- ORC_DEBUG=- ORC_BACKEND=-";
        if (starts(l, "dirs ")) l = "dirs xdg=unset home=unset tmpdir=unset tmp=ok execmem=1";
        if (starts(l, "cfg ")) l = "cfg poison=0 sink=0 cycles=1 oracles=layout,bytes,reuse,growth,enum refchild=0";
        if (starts(l, "init")) l = "init";
      }
      return pl;
    }
  }

  // ---- C09: a member that needs more regions at once than any fixed-size table would hold -----------
  if (P == "C09" && sw.chance(1, 60)) {
    for (auto &l : pl) {
      if (starts(l, "env ")) l = "env ORC_CODE=- ORC_DEBUG=- ORC_BACKEND=-";
      if (starts(l, "dirs ")) l = "dirs xdg=unset home=unset tmpdir=unset tmp=ok execmem=1";
      if (starts(l, "cfg ")) l = "cfg poison=0 sink=0 cycles=1 oracles=layout,bytes,reuse,growth refchild=0";
      if (starts(l, "init")) l = "init";
    }
    int live = 258 + (int)pr.below(80);
    for (int i = 0; i < live; i++) pl.push_back(strf("op rawalloc size=65536 fill=%d", i + 1));
    for (int i = 0; i < 40; i++) {
      // with everything full: requests that need yet another region, and their release
      pl.push_back(strf("op rawalloc size=%d fill=%d", pr.chance(1, 2) ? 65536 : 30000, 1000 + i));
      if (pr.chance(2, 3)) pl.push_back("op freec c=newest");
    }
    pl.push_back("op freeall");
    return pl;
  }

  // ---- operations -----------------------------------------------------------
  int subj_seen = 0;
  for (int i = 0; i < nops; i++) {
    std::string op = pick_weighted(pr, mix);
    // the first few operations create work
    if (i < 3 || (i < nops / 3 && pr.chance(1, 3))) op = (i % 2) ? "compile" : "new";
    if (P == "C17" && nsubjects && i >= 2 && subj_seen < nsubjects && pr.chance(1, 3)) op = "subject";
    std::string l = "op " + op;
    if (op == "new") {
      int maxsize = pr.chance(1, 5) ? 4 : 8;
      l += " spec=" + gen_spec(pr, maxlen, maxsize, use_corpus, P == "C06" || P == "C16" || P == "C17");
      l += strf(" backup=%d", (P == "C06" || P == "C16") ? (int)pr.chance(2, 5) : 0);
      // a sixth of the programs are built the way orcc-generated code builds them: from static bytecode
      if (pr.chance(1, 6)) l += " via=bc";
    } else if (op == "compile") {
      static const char *t06[] = {"default", "default", "default", "avx", "sse", "mmx", "null"};
      static const char *t09[] = {"default", "default", "avx", "sse", "sse", "mmx"};
      static const char *t16[] = {"default", "default", "avx", "sse", "mmx", "c", "null", "neon"};
      static const char *t17[] = {"default", "default", "avx", "sse", "sse", "mmx", "neon", "neon", "mips", "altivec", "c", "default"};
      const char *t = P == "C06" ? t06[pr.below(7)] : P == "C16" ? t16[pr.below(8)] : P == "C17" ? t17[pr.below(12)] : t09[pr.below(6)];
      l += strf(" p=%d target=%s fmask=0xffffffff", (int)pr.below(1000), t);
      if (P == "C17" && !strcmp(t, "neon") && pr.chance(1, 2)) l += " fset=0x8";
      if (faults && fr.chance(1, 3)) {
        int nf = 1 + (int)fr.below(2);
        for (int k = 0; k < nf; k++) l += " " + gen_fault(fr, 5);
      }
    } else if (op == "parse") {
      // text -> programs (+ error objects) -> free: the parser's own ownership rules, on valid and on
      // mildly invalid text (unknown opcode, undefined variable, duplicate declaration, text cut short)
      l += strf(" k=%d mut=%d at=%d errs=%d", (int)pr.below(100000), (int)pr.below(5), (int)pr.below(1000), (int)pr.below(2));
      l += strf(" more=%d init=%d", (int)pr.below(3), (int)pr.chance(1, 3));
    } else if (op == "append") {
      // the program is edited after it was built (and possibly compiled): a valid extra instruction, or one
      // whose operand sizes do not match (the next compile must then fail fatally and leave nothing behind)
      l += strf(" p=%d kind=%s", (int)pr.below(1000), pr.chance(1, 2) ? "good" : "bad");
    } else if (op == "take" || op == "reset" || op == "freep") {
      l += strf(" p=%d", (int)pr.below(1000));
    } else if (op == "freec") {
      l += strf(" c=%d", (int)pr.below(1000));
    } else if (op == "run") {
      static const char *modes[] = {"exec", "exec", "direct", "direct", "emulate", "backup"};
      l += strf(" p=%d mode=%s n=%d ds=%llu", (int)pr.below(1000), modes[pr.below(6)],
                pr.chance(1, 4) ? ((P == "C06" && pr.chance(1, 4)) ? -1 : 0) : 1 + (int)pr.below(100), (unsigned long long)(dr.next() >> 20));   // n=0: seeded length, n=-1: an empty call (C06 only: its oracle tells a pure-function native defect from a fallback defect)
    } else if (op == "runc") {
      static const char *modes[] = {"exec", "exec", "direct", "direct", "emulate", "backup"};
      l += strf(" c=%d mode=%s n=%d ds=%llu", (int)pr.below(1000), modes[pr.below(6)],
                pr.chance(1, 4) ? ((P == "C06" && pr.chance(1, 4)) ? -1 : 0) : 1 + (int)pr.below(100), (unsigned long long)(dr.next() >> 20));
    } else if (op == "debug") {
      l += strf(" level=%d", (int)pr.below(6));
    } else if (op == "policy") {
      static const char *d[] = {"xdg", "home", "tmpdir", "tmp", "execmem"};
      const char *dd = d[fr.below(5)];
      // windows in which executable memory cannot be had at all (every directory noexec, anonymous
      // executable mappings denied), and their end
      if (fr.chance(2, 5)) l += strf(" dir=all to=%s", fr.chance(1, 2) ? "denied" : "ok");
      else if (!strcmp(dd, "execmem")) l += strf(" dir=execmem to=%d", (int)fr.below(2));
      else l += strf(" dir=%s to=%s", dd, dir_policy(fr, 60).c_str());
    } else if (op == "rawalloc") {
      static const int sz[] = {1, 15, 16, 17, 100, 1000, 4096, 5000, 16384, 20000, 32768, 40000, 65520, 65535, 65536,
                               65537, 70000, 200000};   // the last three: more than a region can hold (must be refused)
      // C16: large blocks, so that a few live objects span several regions in every cycle
      bool big = P == "C16" || (P == "C17" && faults);
      l += strf(" size=%d fill=%llu", big ? sz[8 + pr.below(7)] : sz[pr.below(P == "C09" ? 18 : 15)], (unsigned long long)(dr.next() >> 40));
    } else if (op == "subject") {
      int s = subj_seen < nsubjects ? subj_seen++ : (int)pr.below(nsubjects ? nsubjects : 1);
      l += strf(" s=%d ds=%llu", s, (unsigned long long)(dr.next() >> 20));
    }
    pl.push_back(l);
    if (sweep_member && i == 1) pl.push_back("op sweep");
    if (float_watch && i == nops / 2) {
      // an ordinary float kernel runs natively in the middle of the history
      pl.push_back("op new spec=fixed:addf backup=0");
      pl.push_back("op compile p=999999 target=default fmask=0xffffffff");
      pl.push_back(strf("op run p=999999 mode=exec n=40 ds=%llu", (unsigned long long)(dr.next() >> 20)));
    }
  }
  if (sweep_member) pl.push_back("op sweep");
  if (P == "C17") {
    // every subject is compiled at least twice more at the end, after the whole history
    for (int s = 0; s < nsubjects; s++)
      pl.push_back(strf("op subject s=%d ds=%llu", s, (unsigned long long)(dr.next() >> 20)));
  }
  return pl;
}

// ---------------------------------------------------------------------------
// interpreter
// ---------------------------------------------------------------------------
struct Twin {
  OrcProgram *p;
  explicit Twin(OrcProgram *pp) : p(pp) {}
  ~Twin() { if (p) orc_program_free(p); }
};

struct Func {  // placement of a live native function
  bool native = false;
  bool exec_ok = true;  // false: code for a backend this CPU cannot execute (only emulation is legal)
  std::string target;   // what it was compiled for
  unsigned long fmask = 0xffffffffUL;
  int region = -1, offset = 0, size = 0;   // where it was when it was recorded (for the log)
  const uint8_t *wptr = nullptr, *eptr = nullptr;   // its addresses: what a live function keeps (regions may come and go)
  std::vector<uint8_t> snap;
};

struct Prog {
  OrcProgram *p = nullptr;
  std::shared_ptr<Twin> twin;
  ProgMeta meta;
  int backup_slot = -1;
  bool runnable = false;
  bool backup_entry = false;  // no code object, but code_exec is the registered backup function (never compiled,
                              // or the last compile failed fatally)
  Func fn;
  std::string target;
  int id = 0;
  bool broken = false;   // an instruction with mismatching sizes was appended
  int appended = 0;
  std::shared_ptr<Twin> pending_twin;  // reference for the edited program; takes over at the next compile
  std::string pending_spec;            // ... and its spec
                                       // (until then the code compiled before the edit is what runs)
};
struct CodeObj {
  OrcCode *c = nullptr;
  std::shared_ptr<Twin> twin;
  ProgMeta meta;
  int backup_slot = -1;
  Func fn;
  bool raw = false;
  int id = 0;
};

struct SubjectRef {
  std::string spec, target;
  unsigned long fmask = 0xffffffffUL, fset = 0;
  bool usable = false;
  int result = 0, code_size = 0;
  uint64_t code_hash = 0, asm_hash = 0, out_hash = 0;
  bool have_out = false;
  int compiles = 0;
};

// ---- opcode sweep (C17): every built-in opcode as a one-instruction program, in three operand forms, compiled
// for one backend in a seeded order; the zero-history reference process compiles them in the opposite order, so
// for every ordered pair (A, B) one of the two has compiled A before B and the other has not.
struct SweepRec { int res = 0, size = 0; uint64_t ch = 0, ah = 0; };
struct SweepCfg {
  bool on = false;
  std::string target;
  unsigned long fset = 0, fmask = 0xffffffffUL;
  uint64_t order = 0;
  std::vector<SweepRec> ref;   // indexed by item number
  bool have_ref = false;
  int passes = 0;
};

static OrcProgram *sweep_program(const OrcStaticOpcode *op, int variant) {
  // the three forms the pinned suite itself builds (orc-test: plain, const, param)
  int args[5] = {-1, -1, -1, -1, -1};
  int n = 0;
  if (variant == 2 && op->src_size[1] == 0) return nullptr;
  OrcProgram *p = orc_program_new();
  if (op->flags & ORC_STATIC_OPCODE_ACCUMULATOR) args[n++] = orc_program_add_accumulator(p, op->dest_size[0], "d1");
  else args[n++] = orc_program_add_destination(p, op->dest_size[0], "d1");
  if (op->dest_size[1]) args[n++] = orc_program_add_destination(p, op->dest_size[1], "d2");
  if (variant == 0) {
    if (op->flags & ORC_STATIC_OPCODE_SCALAR) {
      if (op->src_size[1] == 0) args[n++] = orc_program_add_constant(p, op->src_size[0], 1, "c1");
      else {
        args[n++] = orc_program_add_source(p, op->src_size[0], "s1");
        args[n++] = orc_program_add_constant(p, op->src_size[1], 1, "c1");
        if (op->src_size[2]) args[n++] = orc_program_add_constant(p, op->src_size[1], 1, "c2");
      }
    } else {
      args[n++] = orc_program_add_source(p, op->src_size[0], "s1");
      if (op->src_size[1]) args[n++] = orc_program_add_source(p, op->src_size[1], "s2");
    }
  } else if (variant == 1) {
    if (op->src_size[1] == 0) args[n++] = orc_program_add_constant(p, op->src_size[0], 3, "c1");
    else {
      args[n++] = orc_program_add_source(p, op->src_size[0], "s1");
      args[n++] = orc_program_add_constant(p, op->src_size[1], 3, "c1");
      if (op->src_size[2]) args[n++] = orc_program_add_constant(p, op->src_size[2], 1, "c2");
    }
  } else {
    args[n++] = orc_program_add_source(p, op->src_size[0], "s1");
    args[n++] = orc_program_add_parameter(p, op->src_size[1], "p1");
    if (op->src_size[2]) args[n++] = orc_program_add_parameter(p, op->src_size[2], "p2");
  }
  orc_program_set_name(p, strf("sweep%d_%s", variant, op->name).c_str());
  orc_program_append_2(p, op->name, 0, args[0], args[1], args[2], args[3]);
  return p;
}

struct SweepItem { int opcode, variant; };
static std::vector<SweepItem> sweep_items(const std::string &target) {
  std::vector<SweepItem> v;
  OrcOpcodeSet *set = orc_opcode_set_get("sys");
  if (!set) return v;
  for (int i = 0; i < set->n_opcodes; i++) {
    const OrcStaticOpcode *op = set->opcodes + i;
    bool has8 = false;
    for (int k = 0; k < 2; k++) if (op->dest_size[k] == 8) has8 = true;
    for (int k = 0; k < 4; k++) if (op->src_size[k] == 8) has8 = true;
    if (has8 && target == "mmx") continue;   // 64-bit programs on mmx never terminate on the pinned tree (C05's subject)
    for (int var = 0; var < 3; var++) {
      // (an upsampling load from a constant is no program anyone writes; the NEON rule aborts on it)
      if (var == 1 && !strncmp(op->name, "loadup", 6)) continue;
      v.push_back({i, var});
    }
  }
  return v;
}
static std::vector<int> sweep_order(size_t n, uint64_t seed, bool reversed) {
  std::vector<int> o(n);
  for (size_t i = 0; i < n; i++) o[i] = (int)i;
  Rng r(mix2(seed, 0x5eed0));
  for (size_t i = n; i > 1; i--) std::swap(o[i - 1], o[r.below(i)]);
  if (reversed) std::reverse(o.begin(), o.end());
  return o;
}
// compiles every item in the given order; `refused` (optional) marks items whose own compile met a refusal of
// code memory.  Returns the records indexed by item number.
static std::vector<SweepRec> sweep_compile(const SweepCfg &sc, bool reversed, std::vector<char> *refused) {
  std::vector<SweepItem> items = sweep_items(sc.target);
  std::vector<SweepRec> out(items.size());
  if (refused) refused->assign(items.size(), 0);
  OrcTarget *t = orc_target_get_by_name(sc.target.c_str());
  OrcOpcodeSet *set = orc_opcode_set_get("sys");
  if (!t || !set) return out;
  unsigned flags = (orc_target_get_default_flags(t) & (unsigned)sc.fmask) | (unsigned)sc.fset;
  for (int idx : sweep_order(items.size(), sc.order, reversed)) {
    OrcProgram *p = sweep_program(set->opcodes + items[idx].opcode, items[idx].variant);
    if (!p) continue;
    fs::begin_op({});
    int res = orc_program_compile_full(p, t, flags);
    fs::OpStats os = fs::end_op();
    if (refused && (os.policy_failures > 0 || os.fired > 0)) (*refused)[idx] = 1;
    OrcCode *code = p->orccode;
    SweepRec &r = out[idx];
    r.res = res;
    r.size = code && code->chunk ? code->code_size : -1;
    r.ch = code && code->chunk ? fnv(code->code, code->code_size) : 0;
    const char *a = orc_program_get_asm_code(p);
    r.ah = a ? fnv(a, strlen(a)) : 0;
    orc_program_free(p);
  }
  return out;
}

struct State {
  Child *c;
  SweepCfg sweep;
  std::vector<Prog> progs;
  std::vector<CodeObj> codes;
  std::vector<SubjectRef> subjects;
  std::set<std::string> oracles;
  bool O(const char *o) const { return oracles.count(o) > 0; }
  int next_id = 0;
  int cycle = 0;
  bool faults_in_plan = false;
  bool debug_mode = false;
  bool jit_forced_off = false;  // init probe failed
  int unaccounted_maps_after_init = -1;   // simulated mappings that belong to no region of the table (the init probe)
  std::string orc_code;
  int fd_count_start = 0;
};

static const int MAX_BACKUP = 4096;
static int g_backup_calls[MAX_BACKUP];
static int g_cur_slot = -1;
static OrcProgram *g_cur_twin = nullptr;

static void backup_fn(OrcExecutor *ex) {
  if (g_cur_slot >= 0) g_backup_calls[g_cur_slot]++;
  // the backup computes what the program computes (it stands for the C version of the function)
  OrcExecutor e2 = *ex;
  e2.program = g_cur_twin;
  orc_executor_emulate(&e2);
  for (int i = 0; i < 4; i++) ex->accumulators[i] = e2.accumulators[i];
}

static int count_fds() {
  int n = 0;
  DIR *d = opendir("/proc/self/fd");
  if (!d) return -1;
  while (readdir(d)) n++;
  closedir(d);
  return n;
}

static int err_from_name(const std::string &s) {
  if (s == "EPERM") return EPERM; if (s == "EACCES") return EACCES; if (s == "ENOENT") return ENOENT;
  if (s == "EMFILE") return EMFILE; if (s == "ENOSPC") return ENOSPC; if (s == "ENOMEM") return ENOMEM;
  if (s == "ENODEV") return ENODEV; if (s == "EIO") return EIO; if (s == "EROFS") return EROFS;
  return EIO;
}
static std::vector<fs::Fault> parse_faults(const std::vector<std::string> &w) {
  std::vector<fs::Fault> v;
  for (auto &x : w) {
    if (!starts(x, "fault=")) continue;
    auto f = split(x.substr(6), ':');
    if (f.size() != 3) continue;
    int kind = f[0] == "mkstemp" ? fs::K_MKSTEMP : f[0] == "ftruncate" ? fs::K_FTRUNCATE : fs::K_MMAP;
    v.push_back(fs::Fault{kind, atoi(f[1].c_str()), err_from_name(f[2])});
  }
  return v;
}

static const char *dir_path(const std::string &d) {
  if (d == "xdg") return "/sim/xdg";
  if (d == "home") return "/sim/home";
  if (d == "tmpdir") return "/sim/tmpdir";
  return "/tmp";
}

static OrcTarget *target_by_name(const std::string &t) {
  if (t == "default") return orc_target_get_default();
  if (t == "null") return nullptr;
  return orc_target_get_by_name(t.c_str());
}

static std::shared_ptr<Twin> make_twin(const std::string &spec, const std::string &name) {
  ProgMeta m;
  OrcProgram *t = build_program(spec, name + "_twin", &m);
  // target NULL: produces an emulation-only code object without touching code memory
  orc_program_compile_full(t, nullptr, 0);
  return std::make_shared<Twin>(t);
}

static void record_fn(State &st, Func &fn, OrcCode *code) {
  fn = Func();
  if (!code || !code->chunk) return;
  Layout l;
  walk_codemem(l);
  int r, off;
  if (!l.locate(code->code, r, off)) {
    if (st.O("layout") || st.O("class"))
      st.c->violation("placement", "code-outside-region",
                      strf("code object with a chunk has its write pointer outside every region (size %d)",
                           code->code_size));
    return;
  }
  fn.native = true;
  fn.region = r;
  fn.offset = off;
  fn.wptr = (const uint8_t *)code->code;
  fn.eptr = (const uint8_t *)code->exec;
  fn.size = code->code_size;
  fn.snap.assign(code->code, code->code + code->code_size);
  int re, offe;
  if (!l.locate_exec((void *)code->exec, re, offe) || re != r || offe != off) {
    if (st.O("layout") || st.O("class"))
      st.c->violation("placement", "exec-write-mismatch",
                      strf("exec pointer is not at the same (region %d, offset %d) as the write pointer", r, off));
  }
}

static int unaccounted_mappings(const Layout &l) {
  std::set<uintptr_t> owned;
  for (auto &r : l.regions) { owned.insert((uintptr_t)r.write_ptr); owned.insert((uintptr_t)r.exec_ptr); }
  int un = 0;
  for (uintptr_t a : fs::live_mapping_addrs()) if (!owned.count(a)) un++;
  return un;
}

// All structural checks that hold after every operation.
static void check_after_op(State &st, const Layout *before, bool was_alloc_op, const Func *newfn) {
  Child &c = *st.c;
  Layout l;
  walk_codemem(l);
  c.state(l.signature());
  if (st.O("layout")) {
    std::string key;
    std::string msg = check_layout(l, key);
    if (!msg.empty()) c.violation("layout", key, msg);
    // live functions: inside one region, pairwise disjoint, chunk used and large enough
    struct Iv { int region, lo, hi; int id; };
    std::vector<Iv> ivs;
    // (a live function is known by its addresses; which region of the current table holds them is looked up now)
    auto add = [&](const Func &fn, int id) {
      if (!fn.native) return;
      int r = -1, off = 0, re = -1, offe = 0;
      if (!l.locate(fn.wptr, r, off) || !l.locate_exec(fn.eptr, re, offe) || r != re || off != offe) {
        c.violation("layout", "function-outside-region", strf("live function %d (recorded at region %d offset %d, %d bytes) is not inside any region any more", id, fn.region, fn.offset, fn.size));
        return;
      }
      ivs.push_back({r, off, off + std::max(fn.size, 1), id});
    };
    for (auto &p : st.progs) add(p.fn, p.id);
    for (auto &co : st.codes) add(co.fn, co.id);
    for (auto &iv : ivs) {
      if (iv.region >= (int)l.regions.size() || iv.hi > l.regions[iv.region].size)
        c.violation("layout", "function-outside-region", strf("live function %d at region %d [%d,%d) is outside the region", iv.id, iv.region, iv.lo, iv.hi));
      bool found = false;
      for (auto &ch : l.regions[iv.region].chunks)
        if (ch.offset == iv.lo) {
          found = true;
          if (!ch.used) c.violation("layout", "live-function-in-free-chunk", strf("live function %d sits in a chunk marked free (region %d offset %d)", iv.id, iv.region, iv.lo));
          if (ch.size < iv.hi - iv.lo) c.violation("layout", "chunk-too-small", strf("live function %d of %d bytes sits in a chunk of %d bytes", iv.id, iv.hi - iv.lo, ch.size));
        }
      if (!found) c.violation("layout", "function-not-at-chunk-start", strf("live function %d (region %d offset %d) does not start a chunk", iv.id, iv.region, iv.lo));
    }
    std::sort(ivs.begin(), ivs.end(), [](const Iv &a, const Iv &b) { return a.region != b.region ? a.region < b.region : a.lo < b.lo; });
    for (size_t i = 1; i < ivs.size(); i++)
      if (ivs[i].region == ivs[i - 1].region && ivs[i].lo < ivs[i - 1].hi)
        c.violation("layout", "live-functions-overlap", strf("live functions %d and %d overlap in region %d: [%d,%d) and [%d,%d)", ivs[i - 1].id, ivs[i].id, ivs[i].region, ivs[i - 1].lo, ivs[i - 1].hi, ivs[i].lo, ivs[i].hi));
    if (!st.debug_mode && (int)ivs.size() != l.used_chunks())
      c.violation("layout", "used-chunks-vs-live-functions", strf("%d chunks are marked used but %zu functions are live", l.used_chunks(), ivs.size()));
  }
  if (st.O("bytes")) {
    auto chk = [&](const Func &fn, int id) {
      int r = -1, off = 0;
      if (!fn.native || !l.locate(fn.wptr, r, off) || off + (int)fn.snap.size() > l.regions[r].size) return;   // (reported by the layout oracle)
      const uint8_t *w = fn.wptr;
      const uint8_t *e = fn.eptr;
      if (memcmp(w, fn.snap.data(), fn.snap.size()) || memcmp(e, fn.snap.data(), fn.snap.size())) {
        size_t k = 0;
        while (k < fn.snap.size() && w[k] == fn.snap[k] && e[k] == fn.snap[k]) k++;
        c.violation("bytes", "live-code-modified", strf("bytes of live function %d changed at +%zu (region %d offset %d size %d)", id, k, fn.region, fn.offset, fn.size));
      }
    };
    for (auto &p : st.progs) chk(p.fn, p.id);
    for (auto &co : st.codes) chk(co.fn, co.id);
  }
  if (st.O("reuse") && before && was_alloc_op && newfn && newfn->native && !st.debug_mode) {
    if (l.regions.size() > before->regions.size()) {
      // which chunk size did the allocator actually take for this function?
      int got = 0;
      for (auto &ch : l.regions[newfn->region].chunks) if (ch.offset == newfn->offset) got = ch.size;
      // free space is judged as the property states it - "coalesced and reused": a run of adjacent free chunks is
      // one piece of free memory, whether the allocator merges eagerly or when it next looks
      for (size_t ri = 0; ri < before->regions.size(); ri++) {
        int run = 0;
        for (auto &ch : before->regions[ri].chunks) {
          run = ch.used ? 0 : run + ch.size;
          if (got > 0 && run >= got) {
            c.count("probe.new_region");
            c.violation("reuse", "new-region-despite-fit", strf("a new region was created for a %d-byte chunk although region %zu had %d contiguous free bytes", got, ri, run));
            break;
          }
        }
      }
      c.count("probe.new_region");
    }
  }
  if (st.O("reuse") && before && !st.debug_mode && l.regions.size() > before->regions.size()) {
    for (size_t ri = 0; ri < before->regions.size(); ri++) {
      bool all_free = true;
      for (auto &ch : before->regions[ri].chunks) if (ch.used) all_free = false;
      if (all_free) {
        c.violation("reuse", "new-region-despite-free-region", strf("a new region was created although region %zu was entirely free (a new region cannot hold more than a free one)", ri));
        break;
      }
    }
  }
  // A descriptor may legitimately be kept for as long as a mapping made from it lives (bounded by the number
  // of regions); one that is open with no mapping left is leaked -- every failed attempt would add another.
  if (st.O("growth") && fs::enabled() && st.unaccounted_maps_after_init >= 0) {
    // mappings obtained from the OS that are not a region of the table any more (or never became one): a small
    // constant is the init probe or a spare; one more after every refused or abandoned attempt is a leak
    int un = unaccounted_mappings(l);
    if (un > st.unaccounted_maps_after_init + 6)
      c.violation("growth", "mappings-outside-the-region-table", strf("%d mappings obtained from the OS belong to no code region (%d after orc_init); %zu regions", un, st.unaccounted_maps_after_init, l.regions.size()));
  }
  if (st.O("fd") && fs::enabled() && fs::double_munmaps() != 0)
    c.violation("crash", "munmap-of-range-already-unmapped", strf("the library unmapped %d address range(s) it had already unmapped: in a process with other threads that destroys whatever was mapped there in between", fs::double_munmaps()));
  if (st.O("fd") && fs::enabled() && fs::open_unmapped_fds() != 0)
    c.violation("fd-leak", "descriptor-open-after-op", strf("%d simulated descriptor(s) still open after the operation although no mapping made from them is alive (%s)", fs::open_unmapped_fds(), fs::open_fd_desc().c_str()));
}

static void layout_probes(Child &c, const Layout &before, const Layout &after, const char *what) {
  // coarse probes on what the allocator just did
  if (after.total_chunks() > before.total_chunks() && !strcmp(what, "alloc")) c.count("probe.split");
  if (after.total_chunks() == before.total_chunks() && !strcmp(what, "alloc") && after.used_chunks() > before.used_chunks()) c.count("probe.exact_fit");
  if (!strcmp(what, "free")) {
    int d = before.total_chunks() - after.total_chunks();
    if (d == 1) c.count("probe.merge_one_side");
    if (d == 2) c.count("probe.merge_both_sides");
    if (d == 0 && after.used_chunks() < before.used_chunks()) c.count("probe.free_no_merge");
  }
  if (after.regions.size() > 1) c.count("probe.multi_region_ops");
}

static void do_run(State &st, Prog *pp, CodeObj *co, const std::string &mode_s, int n, uint64_t ds) {
  Child &c = *st.c;
  const ProgMeta &meta = pp ? pp->meta : co->meta;
  if (meta.unsafe_run) { c.event("  skip-run unsafe %s", meta.name.c_str()); return; }
  RunMode mode = mode_s == "emulate" ? RUN_EMULATE : mode_s == "backup" ? RUN_BACKUP : mode_s == "direct" ? RUN_DIRECT : RUN_EXEC;
  if (!(pp ? pp->fn.exec_ok : co->fn.exec_ok) && mode != RUN_EMULATE) {
    mode = RUN_EMULATE;  // code for a foreign backend must never be called
    c.count("probe.foreign_code_emulated_only");
  }
  OrcProgram *twin = pp ? pp->twin->p : co->twin->p;
  int slot = pp ? pp->backup_slot : co->backup_slot;
  bool native = pp ? pp->fn.native : co->fn.native;
  RunData act, ref;
  make_inputs(meta, ds, n, act, mode == RUN_EMULATE);
  make_inputs(meta, ds, n, ref, mode == RUN_EMULATE);
  g_cur_slot = slot;
  g_cur_twin = twin;
  int before = slot >= 0 ? g_backup_calls[slot] : 0;
  scribble_stack(ds);
  run_with(pp ? pp->p : nullptr, pp ? nullptr : co->c, meta, mode, act);
  int delta = slot >= 0 ? g_backup_calls[slot] - before : 0;
  g_cur_slot = -1;
  reference_emulate(twin, meta, ref);
  std::string diff = compare_outputs(meta, act, ref);
  uint64_t oh = hash_outputs(meta, act);
  c.event("  ran %s mode=%s native=%d n=%d m=%d backup_delta=%d out=%016llx", meta.name.c_str(), mode_s.c_str(), native,
          act.n, act.m, delta, (unsigned long long)oh);
  c.count(std::string("run.") + (pp ? "attached." : "codeonly.") + mode_s + (native ? ".native" : delta ? ".backup" : ".emulated"));
  bool compare = !(meta.has_float && native && mode != RUN_EMULATE);
  if (st.O("backup") || st.O("res")) {
    if (delta > 1)
      c.violation("backup", "backup-called-more-than-once", strf("backup function of %s was called %d times by one run (mode %s)", meta.name.c_str(), delta, mode_s.c_str()));
    if (delta && mode == RUN_EMULATE)
      c.violation("backup", "emulate-called-backup", strf("orc_executor_emulate of %s called the backup function", meta.name.c_str()));
  }
  if (st.O("res") && compare && !diff.empty() && native && mode != RUN_EMULATE) {
    // Native code disagrees with emulation.  If a pristine process (no history,
    // no faults) computes the very same native output for this program and these
    // inputs, the disagreement is a pure function of the program -- C01's
    // subject, not a history/fault/placement effect -- and is only counted.
    const Func &fn = pp ? pp->fn : co->fn;
    uint64_t ph = 0;
    int pst = pristine_native_hash(meta.spec, fn.target, fn.fmask, act.n, ds, ph);
    if (pst == 2 || (pst == 1 && ph == oh)) {
      c.count("probe.native_vs_emulation_defect_confirmed_in_pristine_process");
      c.event("  (native != emulation also in a pristine process: not this property's subject)");
      diff.clear();
    } else if (pst < 0) {
      // the helper process could not be run (three attempts): nothing can be concluded about this disagreement
      c.count("probe.pristine_helper_unavailable");
      c.note("pristine helper unavailable: " + g_pristine_diag);
      diff.clear();
    }
  }
  if (st.O("res") && compare && !diff.empty())
    c.violation("result", native && mode != RUN_EMULATE ? "native-result-differs" : "fallback-result-differs",
                strf("%s [%s] via %s executor, mode %s, native=%d backup_calls=%d: %s", meta.name.c_str(), meta.opnames.c_str(),
                     pp ? "program-attached" : "code-only", mode_s.c_str(), native, delta, diff.c_str()));
  if (st.O("det")) {
    // repeated runs of the same code on the same inputs give the same outputs
    RunData again;
    make_inputs(meta, ds, n, again, mode == RUN_EMULATE);
    // ... whatever state the executor structure was in before (fresh and zeroed, or holding the leftovers of
    // earlier calls, as the uninitialised executors of generated wrappers do)
    again.exstyle = again.exstyle == 1 ? 0 : 1;
    again.exgarbage = mix2(again.exgarbage, 0x5ca1ab1e);
    g_cur_slot = slot;
    run_with(pp ? pp->p : nullptr, pp ? nullptr : co->c, meta, mode, again);
    g_cur_slot = -1;
    if (hash_outputs(meta, again) != oh)
      c.violation("determinism", "repeated-run-differs", strf("%s: two runs of the same code on the same inputs differ", meta.name.c_str()));
  }
}

static void free_prog(State &st, size_t i) {
  Prog &p = st.progs[i];
  orc_program_free(p.p);
  st.progs.erase(st.progs.begin() + i);
}
static void free_code(State &st, size_t i) {
  CodeObj &co = st.codes[i];
  orc_code_free(co.c);
  st.codes.erase(st.codes.begin() + i);
}

// zero-history reference for one subject, computed in a grandchild forked before orc_init
static void subject_reference(State &st, SubjectRef &s, int idx) {
  int pfd[2];
  if (pipe(pfd) != 0) return;
  pid_t pid = fork();
  if (pid == 0) {
    close(pfd[0]);
    unsetenv("ORC_DEBUG");
    alloc::set_poison(false, 0);
    struct rlimit rl = {5, 6};  // a subject that cannot be compiled in bounded time is unusable, not a verdict
    setrlimit(RLIMIT_CPU, &rl);
    orc_init();
    ProgMeta meta;
    OrcProgram *p = build_program(s.spec, strf("subj%d", idx), &meta);
    OrcTarget *t = target_by_name(s.target);
    std::string out;
    if (!t && s.target != "null") out = "unusable no-target\n";
    else {
      unsigned flags = t ? ((orc_target_get_default_flags(t) & s.fmask) | s.fset) : 0;
      int res = orc_program_compile_full(p, t, flags);
      OrcCode *code = p->orccode;
      uint64_t ch = code && code->chunk ? fnv(code->code, code->code_size) : 0;
      const char *asmc = orc_program_get_asm_code(p);
      uint64_t ah = asmc ? fnv(asmc, strlen(asmc)) : 0;
      out = strf("ok %d %d %llu %llu\n", res, code ? code->code_size : -1, (unsigned long long)ch, (unsigned long long)ah);
    }
    ssize_t wr = write(pfd[1], out.data(), out.size());
    (void)wr;
    _exit(0);
  }
  close(pfd[1]);
  std::string buf;
  char tmp[256];
  ssize_t n;
  g_waiting_for_grandchild++;
  while ((n = read(pfd[0], tmp, sizeof tmp)) > 0) buf.append(tmp, n);
  close(pfd[0]);
  int stt;
  waitpid(pid, &stt, 0);
  g_waiting_for_grandchild--;
  unsigned long long ch = 0, ah = 0;
  int res = 0, cs = 0;
  if (sscanf(buf.c_str(), "ok %d %d %llu %llu", &res, &cs, &ch, &ah) == 4 && !ORC_COMPILE_RESULT_IS_FATAL(res)) {
    s.usable = true; s.result = res; s.code_size = cs; s.code_hash = ch; s.asm_hash = ah;
  } else {
    s.usable = false;
    st.c->count("probe.subject_unusable_in_zero_history_child");
  }
  st.c->event("subject %d ref usable=%d result=%d size=%d code=%016llx asm=%016llx", idx, s.usable, res, cs, ch, ah);
}

// zero-history reference for the sweep: a grandchild forked before orc_init compiles the items in the opposite order
static void sweep_reference(State &st) {
  int pfd[2];
  if (pipe(pfd) != 0) return;
  pid_t pid = fork();
  if (pid == 0) {
    close(pfd[0]);
    unsetenv("ORC_DEBUG");
    struct rlimit rl = {20, 20};
    setrlimit(RLIMIT_CPU, &rl);
    fs::reset();
    fs::enable(true);
    fs::set_dir("/tmp", fs::P_OK);
    unsetenv("XDG_RUNTIME_DIR"); unsetenv("HOME"); unsetenv("TMPDIR");
    orc_init();
    std::vector<SweepRec> recs = sweep_compile(st.sweep, true, nullptr);
    size_t off = 0, len = recs.size() * sizeof(SweepRec);
    const char *raw = (const char *)recs.data();
    while (off < len) { ssize_t k = write(pfd[1], raw + off, len - off); if (k <= 0) break; off += k; }
    _exit(0);
  }
  close(pfd[1]);
  std::string buf;
  char tmp[4096];
  ssize_t n;
  g_waiting_for_grandchild++;
  while ((n = read(pfd[0], tmp, sizeof tmp)) > 0) buf.append(tmp, n);
  close(pfd[0]);
  int stt;
  waitpid(pid, &stt, 0);
  g_waiting_for_grandchild--;
  if (WIFEXITED(stt) && WEXITSTATUS(stt) == 0 && buf.size() % sizeof(SweepRec) == 0 && !buf.empty()) {
    st.sweep.ref.resize(buf.size() / sizeof(SweepRec));
    memcpy(st.sweep.ref.data(), buf.data(), buf.size());
    st.sweep.have_ref = true;
  } else {
    st.c->count("probe.sweep_unusable_in_zero_history_child");
  }
  st.c->event("sweep ref target=%s fset=%#lx items=%zu usable=%d (child %s %d)", st.sweep.target.c_str(), st.sweep.fset, st.sweep.ref.size(), st.sweep.have_ref,
              WIFSIGNALED(stt) ? "signal" : "exit", WIFSIGNALED(stt) ? WTERMSIG(stt) : WEXITSTATUS(stt));
}

// application-side opcode sets registered as part of a history (C17): their storage must outlive the process
static void hist_ext_emulate(OrcOpcodeExecutor *ex, int offset, int n) {
  const orc_int16 *s = (const orc_int16 *)ex->src_ptrs[0];
  orc_int16 *d = (orc_int16 *)ex->dest_ptrs[0];
  (void)offset;
  for (int i = 0; i < n; i++) d[i] = s[i];
}
static OrcStaticOpcode g_hist_ext[8][2];
static char g_hist_ext_names[8][16];
static int g_hist_ext_n = 0;

static void hist_run(const std::vector<std::string> &plan, Child &c) {
  State st;
  st.c = &c;
  std::vector<std::string> env_w, dirs_w, cfg_w, init_w;
  std::vector<std::vector<std::string>> ops;
  std::string prop;
  for (auto &line : plan) {
    auto w = words(line);
    if (w.empty()) continue;
    if (w[0] == "prop" && w.size() > 1) prop = w[1];
    else if (w[0] == "env") env_w = w;
    else if (w[0] == "dirs") dirs_w = w;
    else if (w[0] == "cfg") cfg_w = w;
    else if (w[0] == "init") init_w = w;
    else if (w[0] == "sweep") {
      st.sweep.on = true;
      st.sweep.target = kv(w, "target", "sse");
      st.sweep.fset = kvu(w, "fset", 0);
      st.sweep.fmask = kvu(w, "fmask", 0xffffffffUL);
      st.sweep.order = kvu(w, "order", 1);
    } else if (w[0] == "subject") {
      SubjectRef s;
      s.spec = kv(w, "spec"); s.target = kv(w, "target", "default"); s.fmask = kvu(w, "fmask", 0xffffffffUL);
      s.fset = kvu(w, "fset", 0);
      size_t idx = kvi(w, "s");
      if (st.subjects.size() <= idx) st.subjects.resize(idx + 1);
      st.subjects[idx] = s;
    } else if (w[0] == "op") {
      ops.push_back(w);
      for (auto &x : w) if (starts(x, "fault=")) st.faults_in_plan = true;
      if (w.size() > 1 && w[1] == "policy") st.faults_in_plan = true;
    }
  }
  for (auto &o : split(kv(cfg_w, "oracles"), ',')) st.oracles.insert(o);
  int cycles = (int)kvi(cfg_w, "cycles", 1);
  bool poison = kvi(cfg_w, "poison", 0);
  bool sink = kvi(cfg_w, "sink", 0);
  bool refchild = kvi(cfg_w, "refchild", 0);
  uint64_t seed = 0;
  for (auto &line : plan) if (starts(line, "seed ")) seed = strtoull(line.c_str() + 5, nullptr, 0);

  // ---- environment -----------------------------------------------------------
  st.orc_code = kv(env_w, "ORC_CODE", "-");
  if (st.orc_code != "-") setenv("ORC_CODE", st.orc_code.c_str(), 1); else unsetenv("ORC_CODE");
  std::string dbg = kv(env_w, "ORC_DEBUG", "-");
  if (dbg != "-") setenv("ORC_DEBUG", dbg.c_str(), 1); else unsetenv("ORC_DEBUG");
  std::string be = kv(env_w, "ORC_BACKEND", "-");
  if (be != "-") setenv("ORC_BACKEND", be.c_str(), 1); else unsetenv("ORC_BACKEND");
  unsetenv("ORC_TARGET");
  st.debug_mode = st.orc_code.find("debug") != std::string::npos;
  fs::reset();
  fs::enable(true);
  const char *dn[] = {"xdg", "home", "tmpdir"};
  const char *ev[] = {"XDG_RUNTIME_DIR", "HOME", "TMPDIR"};
  bool dir_not_ok = false;
  for (int i = 0; i < 3; i++) {
    std::string pol = kv(dirs_w, dn[i], "unset");
    if (pol == "unset") unsetenv(ev[i]);
    else { setenv(ev[i], dir_path(dn[i]), 1); fs::set_dir(dir_path(dn[i]), fs::policy_from_name(pol)); if (pol != "ok") dir_not_ok = true; }
  }
  fs::set_dir("/tmp", fs::policy_from_name(kv(dirs_w, "tmp", "ok")));
  fs::set_execmem(kvi(dirs_w, "execmem", 1));
  if (kv(dirs_w, "tmp", "ok") != "ok" || !kvi(dirs_w, "execmem", 1)) dir_not_ok = true;
  (void)dir_not_ok;
  if (!init_w.empty() && init_w.size() > 1) st.faults_in_plan = true;
  st.fd_count_start = count_fds();
  if (sink) install_debug_sink();

  // zero-history references (before this process initialises orc)
  if (refchild)
    for (size_t i = 0; i < st.subjects.size(); i++)
      if (!st.subjects[i].spec.empty()) subject_reference(st, st.subjects[i], (int)i);
  if (st.sweep.on) sweep_reference(st);

  // ---- init, possibly under faults ---------------------------------------------
  alloc::set_poison(poison, mix2(seed, 77));
  scribble_stack(seed);
  fs::begin_op(parse_faults(init_w));
  orc_init();
  fs::OpStats ist = fs::end_op();
  if (!sink) install_debug_sink();  // never let debug text reach the real stderr
  c.event("init ORC_CODE=%s trace: %s| flags backup=%d emulate=%d", st.orc_code.c_str(), ist.trace.c_str(),
          _orc_compiler_flag_backup, _orc_compiler_flag_emulate);
  c.count("fault.fired", ist.fired);
  c.count("fault.policy_failures", ist.policy_failures);
  for (auto &fp : ist.fired_positions) c.count("faultpos.init." + fp);
  if (ist.fired_positions.size() == 2) c.count("faultpair.init." + ist.fired_positions[0] + "+" + ist.fired_positions[1]);
  bool code_has_be = st.orc_code.find("backup") != std::string::npos || st.orc_code.find("emulate") != std::string::npos;
  if (!code_has_be) {
    bool probe_ok = ist.trace.find("mmap(w)=ok") != std::string::npos || ist.trace.find("mmap(anon)=ok") != std::string::npos;
    st.jit_forced_off = !probe_ok;
    if (!probe_ok) c.count("probe.init_probe_failed");
    if (st.O("class")) {
      if (!probe_ok && !(_orc_compiler_flag_backup && _orc_compiler_flag_emulate))
        c.violation("classification", "probe-failed-but-jit-enabled", "no executable mapping could be obtained at init but backup/emulate were not forced");
    }
  }
  if (st.O("fd") && fs::double_munmaps() != 0)
    c.violation("crash", "munmap-of-range-already-unmapped", strf("orc_init unmapped %d address range(s) it had already unmapped: in a process with other threads that destroys whatever was mapped there in between", fs::double_munmaps()));
  if (st.O("fd") && fs::open_unmapped_fds() != 0)
    c.violation("fd-leak", "descriptor-open-after-init", strf("%d simulated descriptor(s) still open after orc_init although no mapping made from them is alive", fs::open_unmapped_fds()));
  c.state(fnv(ist.trace));
  { Layout l0; walk_codemem(l0); st.unaccounted_maps_after_init = unaccounted_mappings(l0); }

  struct CycleStat { size_t bytes, blocks; int regions, used, chunks; };
  std::vector<CycleStat> cstats;

  for (st.cycle = 0; st.cycle < cycles; st.cycle++) {
    for (size_t oi = 0; oi < ops.size(); oi++) {
      auto &w = ops[oi];
      const std::string &op = w[1];
      std::string line;
      for (size_t k = 1; k < w.size(); k++) line += (k > 1 ? " " : "") + w[k];
      c.event("[%d.%zu] %s", st.cycle, oi, line.c_str());
      scribble_stack(mix2(seed, oi));
      Layout before;
      walk_codemem(before);
      bool alloc_op = false;
      Func *newfn = nullptr;

      if (op == "new") {
        Prog p;
        p.id = st.next_id++;
        std::string name = strf("prog%d", p.id);
        std::string spec = kv(w, "spec");
        p.p = build_program(spec, name, &p.meta);
        if (kv(w, "via", "api") == "bc") {
          OrcBytecode *bc = orc_bytecode_from_program(p.p);
          OrcProgram *q = orc_program_new_from_static_bytecode(bc->bytecode);
          orc_bytecode_free(bc);
          orc_program_free(p.p);
          orc_program_set_name(q, name.c_str());
          p.p = q;
          c.count("op.new_from_static_bytecode");
        }
        p.twin = make_twin(spec, name);
        if (kvi(w, "backup", 0) && p.id < MAX_BACKUP) {
          p.backup_slot = p.id;
          orc_program_set_backup_function(p.p, backup_fn);
          p.backup_entry = true;
          orc_program_set_backup_name(p.p, strf("backup_of_%s", name.c_str()).c_str());
        }
        c.event("  built %s insns=%d ops=[%s]", name.c_str(), p.meta.n_insns, p.meta.opnames.c_str());
        st.progs.push_back(p);
      } else if (op == "compile") {
        if (st.progs.empty()) { c.event("  skip"); continue; }
        Prog &p = st.progs[kvi(w, "p") % st.progs.size()];
        std::string tname = kv(w, "target", "default");
        // The register-pressure program exists to exhaust mmx's eight registers (C06's register-exhaustion
        // clause).  (Measured: compiled for avx under ORC_CODE=debug, i.e. with a frame pointer, its native code
        // corrupts the caller's frame -- a calling-convention defect, C10's subject, kept out of these workloads.)
        if (p.meta.spec == "fixed:regpressure" && tname != "null") tname = "mmx";
        // (Measured: a 22-instruction generated program compiled for altivec reads out of bounds in
        // powerpc_do_fixups -- unchecked backend tables, C05's subject.  Backends this machine cannot execute
        // only get short programs, like the foreign subjects.)
        if ((tname == "neon" || tname == "mips" || tname == "altivec" || tname == "c64x-c") && p.p->n_insns > 6) tname = "default";
        OrcTarget *t = target_by_name(tname);
        // 64-bit programs on mmx never terminate on the pinned tree: another property's defect
        if (t && !strcmp(t->name, "mmx") && p.meta.has8) { tname = "sse"; t = target_by_name(tname); }
        if (!t && tname != "null") { c.event("  skip no-target"); continue; }
        unsigned flags = t ? ((orc_target_get_default_flags(t) & (unsigned)kvu(w, "fmask", 0xffffffffUL)) | (unsigned)kvu(w, "fset", 0)) : 0;
        bool pending = strcmp(orc_program_get_error(p.p), "") != 0;
        auto faults = parse_faults(w);
        fs::begin_op(faults);
        int res = orc_program_compile_full(p.p, t, flags);
        fs::OpStats os = fs::end_op();
        c.count("fault.fired", os.fired);
        c.count("fault.policy_failures", os.policy_failures);
        for (auto &fp : os.fired_positions) c.count("faultpos.compile." + fp);
        if (os.fired_positions.size() == 2) c.count("faultpair.compile." + os.fired_positions[0] + "+" + os.fired_positions[1]);
        c.count("compile.total");
        if (os.fired || os.policy_failures) c.count("compile.under_fault");
        if (!os.trace.empty()) { c.count("compile.created_region_attempt"); c.state(fnv(os.trace)); }
        if (os.fired && (st.progs.size() + st.codes.size()) >= 3) c.count("probe.region_fault_with_live_neighbours");
        bool ok = ORC_COMPILE_RESULT_IS_SUCCESSFUL(res), fatal = ORC_COMPILE_RESULT_IS_FATAL(res);
        OrcCode *code = p.p->orccode;
        c.count(ok ? "compile.ok" : fatal ? "compile.fatal" : "compile.fallback");
        if (pending) {
          c.count("compile.with_pending_error");
          // an earlier error message is still attached: the library declines; state is unchanged
        } else {
          p.target = tname;
          p.runnable = !fatal;
          p.backup_entry = fatal;
          p.fn = Func();
          if (p.pending_twin) { p.twin = p.pending_twin; p.pending_twin.reset(); p.meta.spec = p.pending_spec; p.pending_spec.clear(); }
          if (st.O("class")) {
            if (!fatal && !code)
              c.violation("classification", "nonfatal-without-code", strf("compile of %s returned %#x (not fatal) but the program has no code object to emulate", p.meta.name.c_str(), res));
            if (ok && (!code || !code->chunk))
              c.violation("classification", "success-without-chunk", strf("compile of %s returned success without executable code", p.meta.name.c_str()));
            if (ok && (void *)p.p->code_exec != (void *)code->exec)
              c.violation("classification", "code_exec-mismatch", "program entry point differs from its code object's entry point");
            if (!ok && !fatal && code && code->chunk)
              c.violation("classification", "fallback-with-chunk", "a failed compile kept a code-memory chunk");
          }
          if (ok && code) {
            record_fn(st, p.fn, code);
            p.fn.exec_ok = !t || t->executable;
            p.fn.target = tname;
            p.fn.fmask = kvu(w, "fmask", 0xffffffffUL);
            alloc_op = true;
            newfn = &p.fn;
          }
        }
        uint64_t ch = (ok && code && code->chunk) ? fnv(code->code, code->code_size) : 0;
        c.event("  compile %s target=%s res=%#x size=%d at r%d+%d code=%016llx fs: %s", p.meta.name.c_str(), tname.c_str(), res,
                code ? code->code_size : -1, p.fn.region, p.fn.offset, (unsigned long long)ch, os.trace.c_str());
        if (ok) {
          Layout after; walk_codemem(after);
          layout_probes(c, before, after, "alloc");
        }
        if (!ok && !fatal && (os.fired || os.policy_failures)) c.count("probe.fallback_after_codemem_failure");
        if (ok && st.jit_forced_off && st.O("class"))
          c.violation("classification", "jit-after-failed-probe", "native code was produced although the init probe had failed");
      } else if (op == "parse") {
        if (corpus_size() == 0) { c.event("  skip"); continue; }
        std::string text = corpus_text((int)kvi(w, "k"));
        std::vector<std::string> lines = split(text, '\n');
        std::vector<size_t> insn_lines, decl_lines;
        for (size_t li = 0; li < lines.size(); li++) {
          if (lines[li].empty()) continue;
          if (lines[li][0] == '.') { if (li > 0) decl_lines.push_back(li); } else if (lines[li][0] != '#') insn_lines.push_back(li);
        }
        int mut = (int)kvi(w, "mut"), at = (int)kvi(w, "at");
        if (mut == 1 && !insn_lines.empty()) {          // unknown opcode
          std::string &ln = lines[insn_lines[at % insn_lines.size()]];
          size_t sp = ln.find(' ');
          if (sp != std::string::npos) ln = "nosuchopcode" + ln.substr(sp);
        } else if (mut == 2 && !insn_lines.empty()) {   // undefined variable as last operand
          std::string &ln = lines[insn_lines[at % insn_lines.size()]];
          size_t cm = ln.rfind(',');
          if (cm != std::string::npos) ln = ln.substr(0, cm + 1) + " undefinedvar9";
        } else if (mut == 3 && !decl_lines.empty()) {   // declaration repeated
          size_t li = decl_lines[at % decl_lines.size()];
          lines.insert(lines.begin() + li, lines[li]);
        } else if (mut == 4 && lines.size() > 3) {      // text cut short after a whole line
          lines.resize(2 + at % (lines.size() - 2));
        }
        std::string src;
        // a source file usually holds several functions, and may name an init function for all of them
        if (kvi(w, "init", 0)) src += strf(".init orcsim_init_%d\n", (int)kvi(w, "k"));
        for (auto &ln : lines) src += ln + "\n";
        for (int more = 1; more <= (int)kvi(w, "more", 0); more++) src += "\n" + corpus_text((int)kvi(w, "k") + more);
        OrcProgram **progs = nullptr;
        int np = 0, ne = 0;
        OrcParseError **errs = nullptr;
        int rc = kvi(w, "errs") ? orc_parse_code(src.c_str(), &progs, &np, &errs, &ne) : orc_parse_code(src.c_str(), &progs, &np, nullptr, nullptr);
        c.event("  parse mut=%d rc=%d programs=%d errors=%d", mut, rc, np, ne);
        c.count(rc ? "op.parse_with_errors" : "op.parse_ok");
        for (int k = 0; k < np; k++) orc_program_free(progs[k]);
        free(progs);
        if (errs) orc_parse_error_freev(errs);
      } else if (op == "append") {
        if (st.progs.empty()) { c.event("  skip"); continue; }
        Prog &p = st.progs[kvi(w, "p") % st.progs.size()];
        int dsize = p.meta.vars[ORC_VAR_D1].size;
        if (dsize == 0 || p.p->n_insns > 40 || p.broken) { c.event("  skip"); continue; }
        if (kv(w, "kind", "good") == "good") {
          // d1 = copy d1: the value is unchanged, the program (and its twin) have one more instruction
          // d1 = d1 ^ s_k for a source of the same size (the function changes, so code left over from before
          // the edit would compute the wrong thing); d1 = copy d1 if there is no such source
          const char *cp = dsize == 1 ? "copyb" : dsize == 2 ? "copyw" : dsize == 4 ? "copyl" : "copyq";
          int xs = 0;
          for (int v = ORC_VAR_S1; v <= ORC_VAR_S8; v++) if (p.meta.vars[v].size == dsize && !p.meta.has_float) { xs = v; break; }
          if (xs) cp = dsize == 1 ? "xorb" : dsize == 2 ? "xorw" : dsize == 4 ? "xorl" : "xorq";
          orc_program_append_2(p.p, cp, 0, ORC_VAR_D1, ORC_VAR_D1, xs, 0);
          // the twin is shared with code objects taken earlier: those keep the old reference
          // (the spec of the edited program carries every edit made so far, so that the twin and a pristine
          // process can rebuild exactly this program)
          p.pending_spec = (p.pending_spec.empty() ? p.meta.spec : p.pending_spec) + strf("+%s.%d", cp, xs);
          ProgMeta tm;
          OrcProgram *t2 = build_program(p.pending_spec, p.meta.name + "_twin", &tm);
          orc_program_compile_full(t2, nullptr, 0);
          p.pending_twin = std::make_shared<Twin>(t2);
          p.appended++;
          c.count("op.append_good");
        } else {
          orc_program_append_2(p.p, dsize == 4 ? "addw" : "addl", 0, ORC_VAR_D1, ORC_VAR_D1, ORC_VAR_D1, 0);
          p.broken = true;   // every later compile must be refused as fatal
          c.count("op.append_bad");
        }
        // the code compiled earlier (if any) is still what runs until the next compile
      } else if (op == "take") {
        if (st.progs.empty()) { c.event("  skip"); continue; }
        Prog &p = st.progs[kvi(w, "p") % st.progs.size()];
        if (!p.runnable) { c.event("  skip not-runnable"); continue; }
        CodeObj co;
        co.id = st.next_id++;
        co.c = orc_program_take_code(p.p);
        if (!co.c) { c.event("  take returned NULL"); p.runnable = false; continue; }
        co.twin = p.twin;
        co.meta = p.meta;
        co.meta.name = strf("code%d(of %s)", co.id, p.meta.name.c_str());
        co.backup_slot = p.backup_slot;
        co.fn = p.fn;
        p.fn = Func();
        p.runnable = false;
        st.codes.push_back(co);
        c.count("op.take");
      } else if (op == "reset") {
        if (st.progs.empty()) { c.event("  skip"); continue; }
        Prog &p = st.progs[kvi(w, "p") % st.progs.size()];
        orc_program_reset(p.p);
        p.runnable = false;
        p.backup_entry = false;   // (code_exec is left pointing at what was just freed)
        p.fn = Func();
        c.count("op.reset");
      } else if (op == "freep") {
        if (st.progs.empty()) { c.event("  skip"); continue; }
        size_t i = kvi(w, "p") % st.progs.size();
        bool native = st.progs[i].fn.native;
        free_prog(st, i);
        if (native) { Layout after; walk_codemem(after); layout_probes(c, before, after, "free"); }
        c.count("op.freep");
      } else if (op == "freec") {
        if (st.codes.empty()) { c.event("  skip"); continue; }
        std::string cs = kv(w, "c", "0");
        size_t i = cs == "newest" ? st.codes.size() - 1 : cs == "middle" ? st.codes.size() / 2 : (size_t)kvi(w, "c") % st.codes.size();
        bool native = st.codes[i].fn.native;
        if (st.codes[i].raw) c.count("op.free_raw");
        free_code(st, i);
        if (native) { Layout after; walk_codemem(after); layout_probes(c, before, after, "free"); }
        c.count("op.freec");
      } else if (op == "run") {
        if (st.progs.empty()) { c.event("  skip"); continue; }
        Prog &p = st.progs[kvi(w, "p") % st.progs.size()];
        std::string mode = kv(w, "mode", "exec");
        if (!p.runnable) {
          // never compiled, or the compile failed fatally: there is no code object, but a program with a
          // registered backup function is still callable through the executor API (that is what generated
          // wrappers do without looking at the compile result) -- the backup function must be what runs
          if (p.backup_slot < 0 || !p.backup_entry || (mode != "exec" && mode != "backup")) { c.event("  skip not-runnable"); continue; }
          c.count("probe.run_without_code_object_backup_registered");
        }
        do_run(st, &p, nullptr, mode, (int)kvi(w, "n"), kvu(w, "ds"));
      } else if (op == "runc") {
        if (st.codes.empty()) { c.event("  skip"); continue; }
        CodeObj &co = st.codes[kvi(w, "c") % st.codes.size()];
        if (co.raw) { c.event("  skip raw"); continue; }
        bool owner_alive = false;
        for (auto &p : st.progs) if (p.twin == co.twin) owner_alive = true;
        if (!owner_alive) c.count("probe.codeonly_run_after_program_freed");
        do_run(st, nullptr, &co, kv(w, "mode", "exec"), (int)kvi(w, "n"), kvu(w, "ds"));
      } else if (op == "debug") {
        orc_debug_set_level((int)kvi(w, "level"));
      } else if (op == "policy") {
        std::string d = kv(w, "dir");
        if (d == "all") {
          bool ok = kv(w, "to", "ok") == "ok";
          for (auto dn2 : {"xdg", "home", "tmpdir"})
            if (getenv(!strcmp(dn2, "xdg") ? "XDG_RUNTIME_DIR" : !strcmp(dn2, "home") ? "HOME" : "TMPDIR"))
              fs::set_dir(dir_path(dn2), ok ? fs::P_OK : fs::P_NOEXEC);
          fs::set_dir("/tmp", ok ? fs::P_OK : fs::P_NOEXEC);
          fs::set_execmem(ok);
          c.count(ok ? "probe.jit_possible_again_window" : "probe.jit_impossible_window");
        } else if (d == "execmem") fs::set_execmem(kvi(w, "to", 1));
        else if (getenv(d == "xdg" ? "XDG_RUNTIME_DIR" : d == "home" ? "HOME" : d == "tmpdir" ? "TMPDIR" : "PATH"))
          fs::set_dir(dir_path(d), fs::policy_from_name(kv(w, "to", "ok")));
      } else if (op == "rawalloc") {
        CodeObj co;
        co.id = st.next_id++;
        co.raw = true;
        co.c = orc_code_new();
        int size = (int)kvi(w, "size", 16);
        fs::begin_op({});
        orc_code_allocate_codemem(co.c, size);
        fs::end_op();
        if (!co.c->chunk) {
          c.event("  rawalloc %d failed", size);
          orc_code_free(co.c);
        } else {
          {
            // the range handed out must lie inside a region before anything is written to it
            Layout pre; walk_codemem(pre);
            int r0, off0;
            if (pre.locate(co.c->code, r0, off0) && off0 + size > pre.regions[r0].size)
              c.violation("layout", "function-outside-region", strf("a request for %d bytes was given [%d,%d) of region %d, which has %d bytes", size, off0, off0 + size, r0, pre.regions[r0].size));
          }
          // what a compile does next: copy the emitted bytes into the chunk
          Rng fr2(kvu(w, "fill", 1));
          for (int k = 0; k < size; k++) co.c->code[k] = (uint8_t)fr2.next();
          record_fn(st, co.fn, co.c);
          co.meta.name = strf("raw%d", co.id);
          st.codes.push_back(co);
          alloc_op = true;
          newfn = &st.codes.back().fn;
          Layout after; walk_codemem(after);
          layout_probes(c, before, after, "alloc");
          c.event("  rawalloc %d at r%d+%d", size, co.fn.region, co.fn.offset);
        }
      } else if (op == "freeall") {
        while (!st.progs.empty()) free_prog(st, st.progs.size() - 1);
        while (!st.codes.empty()) free_code(st, st.codes.size() - 1);
        c.count("op.freeall");
        if (st.O("enum")) {
          c.count("enum.alloc_free_sequences_completed");
          // after "free everything" every region must be one free chunk again
          Layout l2;
          walk_codemem(l2);
          if (l2.used_chunks() != 0)
            c.violation("growth", "used-chunk-after-free-all", strf("%d regions, %d chunks, %d used after everything was freed", (int)l2.regions.size(), l2.total_chunks(), l2.used_chunks()));
          if (!l2.regions.empty()) {
            // behavioural form of "coalesced": a whole-region request is served from what is there
            OrcCode *probe = orc_code_new();
            orc_code_allocate_codemem(probe, 65536);
            Layout l3;
            walk_codemem(l3);
            if (l3.regions.size() > l2.regions.size() || !probe->chunk)
              c.violation("growth", "not-coalesced-after-free-all", strf("after everything was freed (%zu regions, %d chunks) a whole-region request %s", l2.regions.size(), l2.total_chunks(),
                                                                          probe->chunk ? "needed a new region" : "was refused"));
            orc_code_free(probe);
          }
          if (l2.regions.size() > 6)
            c.violation("growth", "regions-grow-over-sequences", strf("%zu regions after enumerated sequences that never need more than 6 at once", l2.regions.size()));
        }
      } else if (op == "regset") {
        // the application registers an opcode set of its own (history too: built-in programs must compile as before)
        if (g_hist_ext_n >= 8) { c.event("  skip"); continue; }
        int k = g_hist_ext_n++;
        snprintf(g_hist_ext_names[k], sizeof g_hist_ext_names[k], "hx%didw", k);
        memset(&g_hist_ext[k], 0, sizeof g_hist_ext[k]);
        OrcStaticOpcode &o = g_hist_ext[k][0];
        snprintf(o.name, sizeof o.name, "%s", g_hist_ext_names[k]);
        o.dest_size[0] = 2; o.src_size[0] = 2; o.emulateN = hist_ext_emulate;
        g_hist_ext[k][1].name[0] = 0;
        static char prefixes[8][8];
        snprintf(prefixes[k], sizeof prefixes[k], "hx%d", k);
        orc_opcode_register_static(g_hist_ext[k], prefixes[k]);
        c.count("op.regset");
      } else if (op == "sweep") {
        if (!st.sweep.on || !st.sweep.have_ref) { c.event("  skip no-sweep-reference"); continue; }
        // a process whose init-time probe found no executable memory emulates everything, by design: that is a
        // different configuration from the reference process, not a different history
        if (st.jit_forced_off) { c.count("probe.sweep_skipped_init_probe_failed"); continue; }
        std::vector<char> refused;
        std::vector<SweepRec> got = sweep_compile(st.sweep, false, &refused);
        std::vector<SweepItem> items = sweep_items(st.sweep.target);
        OrcOpcodeSet *set = orc_opcode_set_get("sys");
        st.sweep.passes++;
        c.count("sweep.passes");
        Fnv h;
        for (size_t i = 0; i < got.size() && i < st.sweep.ref.size(); i++) {
          const SweepRec &a = got[i], &b = st.sweep.ref[i];
          h.add(&a, sizeof a);
          c.count("sweep.compiles");
          if (refused[i] && !ORC_COMPILE_RESULT_IS_SUCCESSFUL(a.res)) { c.count("probe.subject_compile_itself_refused_code_memory"); continue; }
          if (ORC_COMPILE_RESULT_IS_SUCCESSFUL(a.res)) c.count("sweep.compiled_to_code");
          std::string what;
          if (a.res != b.res) what = strf("compile result %#x vs %#x", a.res, b.res);
          else if (a.size != b.size) what = strf("code size %d vs %d", a.size, b.size);
          else if (a.ch != b.ch) what = "machine code bytes differ";
          else if (a.ah != b.ah) what = "listing differs";
          if (!what.empty() && st.O("det")) {
            const OrcStaticOpcode *so = set->opcodes + items[i].opcode;
            c.violation("determinism", a.ch != b.ch || a.size != b.size ? "code-differs" : a.ah != b.ah ? "listing-differs" : "result-differs",
                        strf("opcode sweep, pass %d: the one-instruction program for %s (operand form %d) compiled for %s with flags (default & %#lx) | %#lx at history point %zu: %s from what a fresh process produced that compiled the same programs in the opposite order",
                             st.sweep.passes, so->name, items[i].variant, st.sweep.target.c_str(), st.sweep.fmask, st.sweep.fset, oi, what.c_str()));
          }
        }
        c.event("  sweep pass %d items=%zu hash=%016llx", st.sweep.passes, got.size(), (unsigned long long)h.h);
      } else if (op == "subject") {
        size_t si = kvi(w, "s");
        if (si >= st.subjects.size() || !st.subjects[si].usable) { c.event("  skip unusable subject"); continue; }
        SubjectRef &s = st.subjects[si];
        ProgMeta meta;
        OrcProgram *p = build_program(s.spec, strf("subj%zu", si), &meta);
        OrcTarget *t = target_by_name(s.target);
        unsigned flags = t ? ((orc_target_get_default_flags(t) & s.fmask) | s.fset) : 0;
        fs::begin_op({});
        int res = orc_program_compile_full(p, t, flags);
        fs::OpStats sos = fs::end_op();
        // the only relaxation: a subject compile that itself met a refusal of code memory (directory
        // policy) may decline to JIT; what happened to *other* compiles earlier must not matter
        bool own_codemem_failure = sos.policy_failures > 0 || sos.fired > 0;
        OrcCode *code = p->orccode;
        uint64_t ch = code && code->chunk ? fnv(code->code, code->code_size) : 0;
        const char *asmc = orc_program_get_asm_code(p);
        uint64_t ah = asmc ? fnv(asmc, strlen(asmc)) : 0;
        int cs = code ? code->code_size : -1;
        int r = -1, off = -1;
        if (code && code->chunk) { Layout l; walk_codemem(l); l.locate(code->code, r, off); }
        c.event("  subject %zu compile#%d res=%#x size=%d at r%d+%d code=%016llx asm=%016llx", si, s.compiles, res, cs, r, off,
                (unsigned long long)ch, (unsigned long long)ah);
        s.compiles++;
        c.count("subject.compiles");
        c.state(mix2(mix2(si, r), off));
        if (st.O("det") && (own_codemem_failure || st.jit_forced_off) && !ORC_COMPILE_RESULT_IS_SUCCESSFUL(res)) {
          c.count("probe.subject_compile_itself_refused_code_memory");
        } else if (st.O("det")) {
          std::string what;
          if (res != s.result) what = strf("compile result %#x vs %#x in a fresh process", res, s.result);
          else if (cs != s.code_size) what = strf("code size %d vs %d in a fresh process", cs, s.code_size);
          else if (ch != s.code_hash) what = "machine code bytes differ from those produced in a fresh process";
          else if (ah != s.asm_hash) what = "listing differs from the one produced in a fresh process";
          if (!what.empty())
            c.violation("determinism", ch != s.code_hash || cs != s.code_size ? "code-differs" : ah != s.asm_hash ? "listing-differs" : "result-differs",
                        strf("subject %zu (%s [%s] target %s fmask %#lx), compile #%d at history point %zu (debug level %d, region %d offset %d): %s",
                             si, s.spec.c_str(), meta.opnames.c_str(), s.target.c_str(), s.fmask, s.compiles, oi, orc_debug_get_level(), r, off, what.c_str()));
          // recompiling after a reset gives identical bytes -- also when the code object was handed out
          // before the reset (the program then has no code object but may still carry its error text)
          OrcCode *handed_out = nullptr;
          if (kvu(w, "ds") & 1) { handed_out = orc_program_take_code(p); c.count("subject.reset_after_take_code"); }
          orc_program_reset(p);
          fs::begin_op({});
          int res2 = orc_program_compile_full(p, t, flags);
          fs::OpStats sos2 = fs::end_op();
          bool own_failure2 = (sos2.policy_failures > 0 || sos2.fired > 0) && !ORC_COMPILE_RESULT_IS_SUCCESSFUL(res2);
          OrcCode *code2 = p->orccode;
          uint64_t ch2 = code2 && code2->chunk ? fnv(code2->code, code2->code_size) : 0;
          const char *asm2 = orc_program_get_asm_code(p);
          uint64_t ah2 = asm2 ? fnv(asm2, strlen(asm2)) : 0;
          if (handed_out) orc_code_free(handed_out);
          if (own_failure2) c.count("probe.subject_compile_itself_refused_code_memory");
          else if (res2 != res || ch2 != ch || ah2 != ah)
            c.violation("determinism", "recompile-after-reset-differs", strf("subject %zu: recompiling after orc_program_reset changed result/code/listing (%#x/%#x)", si, res, res2));
          // native subjects also run, twice, on the same inputs
          if (ORC_COMPILE_RESULT_IS_SUCCESSFUL(res2) && t && t->executable && !meta.unsafe_run) {
            RunData a, b;
            make_inputs(meta, kvu(w, "ds"), 0, a);
            make_inputs(meta, kvu(w, "ds"), 0, b);
            b.exstyle = a.exstyle == 1 ? 0 : 1;   // same code, same inputs, executor structure in a different prior state
            b.exgarbage = mix2(a.exgarbage, 0x5ca1ab1e);
            run_with(p, nullptr, meta, RUN_EXEC, a);
            run_with(p, nullptr, meta, RUN_EXEC, b);
            uint64_t ha = hash_outputs(meta, a), hb = hash_outputs(meta, b);
            c.event("  subject %zu out=%016llx mxcsr=%#x", si, (unsigned long long)ha, (unsigned)__builtin_ia32_stmxcsr() & 0xffc0u);   // control bits only: the sticky status flags are inherited noise
            if (ha != hb) c.violation("determinism", "repeated-run-differs", strf("subject %zu: two runs of the same code on the same inputs differ", si));
            c.count("subject.runs");
            // ... and regardless of what was compiled, run or freed before: the same fixed inputs at every point of
            // the history must give the outputs they gave the first time
            RunData pr3;
            make_inputs(meta, mix2(0x9e0be, si), 64, pr3);
            run_with(p, nullptr, meta, RUN_EXEC, pr3);
            uint64_t hp = hash_outputs(meta, pr3);
            if (!s.have_out) { s.out_hash = hp; s.have_out = true; }
            else if (hp != s.out_hash)
              c.violation("determinism", "result-depends-on-history", strf("subject %zu (%s [%s] target %s): the same code run on the same inputs gives different outputs at history point %zu than the first time", si, s.spec.c_str(), meta.opnames.c_str(), s.target.c_str(), oi));
          }
        }
        // an edited program compiles to what a freshly built program with the same instructions compiles to
        // (nothing left over from the compile before the edit)
        // (only after a successful compile: a program that carries an error text refuses to be recompiled
        // without a reset, by design)
        if (st.O("det") && (kvu(w, "ds") & 2) && meta.vars[ORC_VAR_D1].size && p->n_insns < 40 && !strcmp(orc_program_get_error(p), "") && p->orccode) {
          int dsize = meta.vars[ORC_VAR_D1].size, xs = 0;
          for (int v = ORC_VAR_S1; v <= ORC_VAR_S8; v++) if (meta.vars[v].size == dsize && !meta.has_float) { xs = v; break; }
          const char *opn = xs ? (dsize == 1 ? "xorb" : dsize == 2 ? "xorw" : dsize == 4 ? "xorl" : "xorq")
                               : (dsize == 1 ? "copyb" : dsize == 2 ? "copyw" : dsize == 4 ? "copyl" : "copyq");
          ProgMeta fm;
          OrcProgram *fresh = build_program(s.spec, strf("subj%zu", si), &fm);
          orc_program_append_2(fresh, opn, 0, ORC_VAR_D1, ORC_VAR_D1, xs, 0);
          orc_program_append_2(p, opn, 0, ORC_VAR_D1, ORC_VAR_D1, xs, 0);
          fs::begin_op({});
          int r1 = orc_program_compile_full(p, t, flags);
          int r2 = orc_program_compile_full(fresh, t, flags);
          fs::OpStats es = fs::end_op();
          bool refused = es.policy_failures > 0 || es.fired > 0;
          auto hcode = [](OrcProgram *q) { return q->orccode && q->orccode->chunk ? fnv(q->orccode->code, q->orccode->code_size) : 0ULL; };
          auto hasm = [](OrcProgram *q) { const char *a = orc_program_get_asm_code(q); return a ? fnv(a, strlen(a)) : 0ULL; };
          c.count("subject.edited_recompiles");
          if (!refused && (r1 != r2 || hcode(p) != hcode(fresh) || hasm(p) != hasm(fresh)))
            c.violation("determinism", "edited-program-compiles-differently",
                        strf("subject %zu: after appending %s and recompiling, result/code/listing (%#x) differ from a freshly built program with the same instructions (%#x)", si, opn, r1, r2));
          orc_program_free(fresh);
        }
        // a compile that fails leaves the program as a failing compile of a freshly built program leaves it,
        // whatever an earlier successful compile attached to it (no reset in between)
        if (st.O("det") && (kvu(w, "ds") & 4) && t && !strcmp(orc_program_get_error(p), "") && p->orccode) {
          ProgMeta fm;
          OrcProgram *fresh = build_program(s.spec, strf("subj%zu", si), &fm);
          for (int k = fm.n_insns; k < p->n_insns; k++)   // (the edit made above, if any)
            orc_program_append_2(fresh, p->insns[k].opcode->name, 0, ORC_VAR_D1, ORC_VAR_D1, p->insns[k].src_args[1], 0);
          fs::begin_op({});
          int r1 = orc_program_compile_full(p, t, 0);        // no feature flags at all: the x86 backends have no rules then
          int r2 = orc_program_compile_full(fresh, t, 0);
          fs::OpStats es = fs::end_op();
          bool refused = es.policy_failures > 0 || es.fired > 0;
          auto hcode = [](OrcProgram *q) { return q->orccode && q->orccode->chunk ? fnv(q->orccode->code, q->orccode->code_size) : 0ULL; };
          auto hasm = [](OrcProgram *q) { const char *a = orc_program_get_asm_code(q); return a ? fnv(a, strlen(a)) : 0ULL; };
          c.count("subject.recompiles_without_flags");
          if (!ORC_COMPILE_RESULT_IS_SUCCESSFUL(r1)) c.count("subject.failing_recompiles_after_success");
          if (!refused && (r1 != r2 || hcode(p) != hcode(fresh) || hasm(p) != hasm(fresh)))
            c.violation("determinism", "failed-recompile-keeps-earlier-state",
                        strf("subject %zu: compiled successfully, then compiled again with no feature flags (%#x): result/code/listing differ from what a freshly built program gets for that compile (%#x)%s", si, r1, r2,
                             hasm(p) != hasm(fresh) ? "; the listing differs" : ""));
          orc_program_free(fresh);
        }
        orc_program_free(p);
      }
      check_after_op(st, &before, alloc_op, newfn);
    }
    // ---- end of cycle: everything is freed -----------------------------------
    if (cycles > 1 || st.O("growth") || st.O("lsan")) {
      Layout before;
      walk_codemem(before);
      while (!st.progs.empty()) free_prog(st, st.progs.size() - 1);
      while (!st.codes.empty()) free_code(st, st.codes.size() - 1);
      check_after_op(st, &before, false, nullptr);
      Layout l;
      walk_codemem(l);
      CycleStat cs{alloc::live_bytes(), alloc::live_blocks(), (int)l.regions.size(), l.used_chunks(), l.total_chunks()};
      cstats.push_back(cs);
      c.event("cycle %d end: regions=%d used=%d chunks=%d orc_live_blocks=%zu orc_live_bytes=%zu", st.cycle, cs.regions, cs.used,
              cs.chunks, cs.blocks, cs.bytes);
      if (st.O("growth") && !st.debug_mode) {
        if (cs.used != 0)
          c.violation("growth", "used-chunk-after-free-all", strf("%d chunk(s) still marked used after every code object was freed", cs.used));
        if (st.O("layout") && cs.regions > 0 && fs::enabled()) {
          // everything is free again: a request for a whole region must be served from what is there
          // (behavioural form of "released memory is coalesced"; how many list nodes describe it is not the point)
          OrcCode *probe = orc_code_new();
          fs::begin_op({});
          orc_code_allocate_codemem(probe, 65536);
          fs::end_op();
          Layout l3;
          walk_codemem(l3);
          if ((int)l3.regions.size() > cs.regions || !probe->chunk)
            c.violation("growth", "not-coalesced-after-free-all", strf("after everything was freed (%d regions, %d chunks) a whole-region request %s", cs.regions, cs.chunks,
                                                                        probe->chunk ? "needed a new region" : "was refused"));
          orc_code_free(probe);
        }
      }
    }
  }
  if (st.O("growth") && !st.debug_mode) {
    // "never grows without bound": a placement policy may need a region more in one cycle than in the one before
    // (bounded drift); what is reported is a region count that went up after *every* one of at least three
    // consecutive identical cycles (the first cycle is warm-up)
    if (!st.faults_in_plan && cstats.size() >= 5) {
      bool every = true;
      for (size_t i = 2; i < cstats.size(); i++) if (cstats[i].regions <= cstats[i - 1].regions) every = false;
      if (every) {
        std::string seq;
        for (auto &cs2 : cstats) seq += strf("%s%d", seq.empty() ? "" : ", ", cs2.regions);
        c.violation("growth", "regions-grow-per-cycle", strf("identical fault-free cycles left %s regions: one more after every cycle", seq.c_str()));
      }
    }
    for (size_t i = 2; i < cstats.size(); i++) {
      auto &a = cstats[i - 1], &b = cstats[i];
      if (st.O("heap") && a.regions == b.regions && (a.bytes != b.bytes || a.blocks != b.blocks)) {
        long db = (long)b.bytes - (long)a.bytes, dk = (long)b.blocks - (long)a.blocks;
        // key: leak size class, so that different leaks are different findings
        c.violation("growth", "heap-grows-per-cycle",
                    strf("identical cycles: liborc holds %zu bytes in %zu blocks after cycle %zu but %zu bytes in %zu blocks after cycle %zu (%+ld bytes, %+ld blocks per cycle)", a.bytes,
                         a.blocks, i - 1, b.bytes, b.blocks, i, db, dk), true);
      }
    }
    if (cstats.size() >= 3) c.count("probe.growth_compared");
  }
  if (st.O("lsan") && __lsan_do_recoverable_leak_check) {
    int leaks = __lsan_do_recoverable_leak_check();
    c.event("lsan %d", leaks);
    if (leaks) {
      // stable key: innermost liborc frame below the allocator in the first leak stack
      fflush(stderr);
      std::string rep;
      {
        char buf[65536];
        off_t end = lseek(2, 0, SEEK_CUR);
        ssize_t n = pread(2, buf, sizeof buf - 1, 0);
        (void)end;
        if (n > 0) rep.assign(buf, n);
      }
      std::string key = "leak";
      size_t pos = rep.find("allocated from:");
      if (pos != std::string::npos) {
        size_t p2 = pos;
        for (int fr = 0; fr < 8; fr++) {
          p2 = rep.find(" in ", p2 + 1);
          if (p2 == std::string::npos) break;
          size_t e = rep.find_first_of(" \n", p2 + 4);
          std::string fn = rep.substr(p2 + 4, e - (p2 + 4));
          if (fn.find("malloc") != std::string::npos || fn.find("realloc") != std::string::npos || fn.find("calloc") != std::string::npos ||
              fn.find("strdup") != std::string::npos || fn == "orc_malloc" || fn == "orc_realloc")
            continue;
          key = "leak-in:" + fn;
          break;
        }
      }
      c.violation("leak", key, "LeakSanitizer found unreachable blocks after all objects were freed: " + rep.substr(0, 900), true);
    }
  }
  if (st.O("fd")) {
    int now = count_fds();
    if (now != st.fd_count_start + fs::open_fds())
      c.violation("fd-leak", "proc-self-fd-count", strf("/proc/self/fd had %d entries before orc_init and %d at the end of the run, %d of which are accounted for by live code regions", st.fd_count_start, now, fs::open_fds()));
  }
  c.count("ops", ops.size() * cycles);
  c.note(strf("final: regions=%d live_programs=%zu", cstats.empty() ? -1 : cstats.back().regions, st.progs.size()));
}

static bool hist_deletable(const std::string &line) { return starts(line, "op "); }

static std::vector<std::string> hist_simplify(const std::string &line) {
  std::vector<std::string> out;
  auto w = words(line);
  if (w.empty()) return out;
  // drop fault attachments one at a time
  for (size_t i = 0; i < w.size(); i++)
    if (starts(w[i], "fault=")) {
      std::string s;
      for (size_t k = 0; k < w.size(); k++) if (k != i) s += (s.empty() ? "" : " ") + w[k];
      out.push_back(s);
    }
  auto replace_kv = [&](const char *key, const std::string &val) {
    std::string s;
    bool changed = false;
    for (auto &x : w) {
      std::string y = x;
      if (starts(x, (std::string(key) + "=").c_str()) && x != std::string(key) + "=" + val) { y = std::string(key) + "=" + val; changed = true; }
      s += (s.empty() ? "" : " ") + y;
    }
    if (changed) out.push_back(s);
  };
  if (w[0] == "cfg") { replace_kv("poison", "0"); replace_kv("sink", "0"); if (kvi(w, "cycles", 1) > 3) replace_kv("cycles", "3"); }
  if (w[0] == "env") { replace_kv("ORC_DEBUG", "-"); replace_kv("ORC_CODE", "-"); replace_kv("ORC_BACKEND", "-"); }
  if (w[0] == "dirs") { for (auto d : {"xdg", "home", "tmpdir"}) replace_kv(d, "unset"); replace_kv("tmp", "ok"); replace_kv("execmem", "1"); }
  if (w[0] == "op" && w.size() > 1) {
    if (w[1] == "run" || w[1] == "runc") { replace_kv("n", "4"); replace_kv("mode", "exec"); }
    if (w[1] == "compile") replace_kv("target", "default");
    if (w[1] == "new") {
      replace_kv("backup", "0");
      replace_kv("spec", "fixed:addw");
      std::string spec = kv(w, "spec");
      auto f = split(spec, ':');
      if (f.size() >= 5 && f[0] == "gen") {
        int len = atoi(f[2].c_str());
        if (len > 1) replace_kv("spec", strf("gen:%s:%d:%s:%s", f[1].c_str(), len / 2, f[3].c_str(), f[4].c_str()));
        if (f[4] != "0") replace_kv("spec", strf("gen:%s:%s:%s:0", f[1].c_str(), f[2].c_str(), f[3].c_str()));
      }
    }
  }
  return out;
}

static void hist_prepare() { corpus_load(); }

const Engine hist = {"hist", hist_gen, hist_run, hist_deletable, hist_simplify, hist_prepare};

}  // namespace

const Engine *const hist_engine = &hist;

}  // namespace sim
