.function old_add_u8
.dest 1 d1 orc_uint8
.source 1 s1 orc_uint8
.source 1 s2 orc_uint8

addb d1, s1, s2


.function old_sub_s16
.dest 2 d1 orc_int16
.source 2 s1 orc_int16
.source 2 s2 orc_int16

subw d1, s1, s2
