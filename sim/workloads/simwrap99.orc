.function c99_add_s16
.dest 2 d1 orc_int16
.source 2 s1 orc_int16
.source 2 s2 orc_int16

addw d1, s1, s2


.function c99_xor_u32
.dest 4 d1 orc_uint32
.source 4 s1 orc_uint32
.source 4 s2 orc_uint32

xorl d1, s1, s2
