.function sim_add_s16
.dest 2 d1 orc_int16
.source 2 s1 orc_int16
.source 2 s2 orc_int16

addw d1, s1, s2


.function sim_sub_u8
.dest 1 d1 orc_uint8
.source 1 s1 orc_uint8
.source 1 s2 orc_uint8

subb d1, s1, s2


.function sim_xor_u32
.dest 4 d1 orc_uint32
.source 4 s1 orc_uint32
.source 4 s2 orc_uint32

xorl d1, s1, s2


.function sim_scale_s16
.dest 2 d1 orc_int16
.source 2 s1 orc_int16
.param 2 p1

mullw d1, s1, p1


.function sim_sum_s32
.source 4 s1 orc_int32
.accumulator 4 a1 orc_int32

accl a1, s1
