// Shared utilities: PRNG streams, hashing, small string helpers, JSON writer.
// Nothing here reads a clock or any other source of nondeterminism.
#pragma once
#include <cstdint>
#include <cstdio>
#include <cstdlib>
#include <cstring>
#include <cstdarg>
#include <string>
#include <vector>
#include <map>
#include <set>
#include <sstream>

namespace sim {

inline uint64_t splitmix64(uint64_t &x) {
  uint64_t z = (x += 0x9e3779b97f4a7c15ULL);
  z = (z ^ (z >> 30)) * 0xbf58476d1ce4e5b9ULL;
  z = (z ^ (z >> 27)) * 0x94d049bb133111ebULL;
  return z ^ (z >> 31);
}

inline uint64_t mix2(uint64_t a, uint64_t b) {
  uint64_t x = a ^ (b * 0x9e3779b97f4a7c15ULL + 0x632be59bd9b4e019ULL);
  return splitmix64(x);
}

// xoshiro256**
struct Rng {
  uint64_t s[4];
  explicit Rng(uint64_t seed = 1) { reseed(seed); }
  void reseed(uint64_t seed) {
    uint64_t x = seed;
    for (int i = 0; i < 4; i++) s[i] = splitmix64(x);
  }
  static inline uint64_t rotl(uint64_t x, int k) { return (x << k) | (x >> (64 - k)); }
  uint64_t next() {
    uint64_t r = rotl(s[1] * 5, 7) * 9, t = s[1] << 17;
    s[2] ^= s[0]; s[3] ^= s[1]; s[1] ^= s[2]; s[0] ^= s[3];
    s[2] ^= t; s[3] = rotl(s[3], 45);
    return r;
  }
  // uniform in [0,n)
  uint64_t below(uint64_t n) { return n ? next() % n : 0; }
  int range(int lo, int hi) { return lo + (int)below((uint64_t)(hi - lo + 1)); }
  bool chance(int num, int den) { return (int)below(den) < num; }
  template <class T> const T &pick(const std::vector<T> &v) { return v[below(v.size())]; }
};

// Independent stream for (run seed, stream id).
inline Rng stream(uint64_t run_seed, uint64_t id) { return Rng(mix2(run_seed, id)); }

enum StreamId { ST_PLAN = 1, ST_SCHED = 2, ST_FAULT = 3, ST_DATA = 4, ST_SWARM = 5 };

struct Fnv {
  uint64_t h = 1469598103934665603ULL;
  void add(const void *p, size_t n) {
    const unsigned char *c = (const unsigned char *)p;
    for (size_t i = 0; i < n; i++) { h ^= c[i]; h *= 1099511628211ULL; }
  }
  void add(const std::string &s) { add(s.data(), s.size()); add("\0", 1); }
  void addu(uint64_t v) { add(&v, sizeof v); }
};
inline uint64_t fnv(const void *p, size_t n) { Fnv f; f.add(p, n); return f.h; }
inline uint64_t fnv(const std::string &s) { return fnv(s.data(), s.size()); }

inline std::string strf(const char *fmt, ...) __attribute__((format(printf, 1, 2)));
inline std::string strf(const char *fmt, ...) {
  va_list ap;
  va_start(ap, fmt);
  char buf[2048];
  int n = vsnprintf(buf, sizeof buf, fmt, ap);
  va_end(ap);
  if (n < (int)sizeof buf) return std::string(buf, n > 0 ? n : 0);
  std::string s(n + 1, 0);
  va_start(ap, fmt);
  vsnprintf(&s[0], n + 1, fmt, ap);
  va_end(ap);
  s.resize(n);
  return s;
}

inline std::vector<std::string> split(const std::string &s, char d) {
  std::vector<std::string> out;
  std::string cur;
  for (char c : s) {
    if (c == d) { out.push_back(cur); cur.clear(); } else cur += c;
  }
  out.push_back(cur);
  return out;
}
inline std::vector<std::string> words(const std::string &s) {
  std::vector<std::string> out;
  std::istringstream is(s);
  std::string w;
  while (is >> w) out.push_back(w);
  return out;
}
inline bool starts(const std::string &s, const char *p) { return s.compare(0, strlen(p), p) == 0; }

// key=value lookup within a word list
inline std::string kv(const std::vector<std::string> &w, const char *key, const char *def = "") {
  std::string k = std::string(key) + "=";
  for (auto &x : w) if (starts(x, k.c_str())) return x.substr(k.size());
  return def;
}
inline long long kvi(const std::vector<std::string> &w, const char *key, long long def = 0) {
  std::string v = kv(w, key, "");
  if (v.empty()) return def;
  return strtoll(v.c_str(), nullptr, 0);
}
inline unsigned long long kvu(const std::vector<std::string> &w, const char *key, unsigned long long def = 0) {
  std::string v = kv(w, key, "");
  if (v.empty()) return def;
  return strtoull(v.c_str(), nullptr, 0);
}

inline std::string json_escape(const std::string &s) {
  std::string o;
  for (unsigned char c : s) {
    if (c == '"') o += "\\\"";
    else if (c == '\\') o += "\\\\";
    else if (c == '\n') o += "\\n";
    else if (c == '\t') o += "\\t";
    else if (c < 0x20 || c >= 0x7f) o += strf("\\u%04x", c);
    else o += (char)c;
  }
  return o;
}

inline std::string read_file(const std::string &path, bool *ok = nullptr) {
  FILE *f = fopen(path.c_str(), "rb");
  if (!f) { if (ok) *ok = false; return ""; }
  std::string s;
  char buf[65536];
  size_t n;
  while ((n = fread(buf, 1, sizeof buf, f)) > 0) s.append(buf, n);
  fclose(f);
  if (ok) *ok = true;
  return s;
}
inline bool write_file(const std::string &path, const std::string &s) {
  FILE *f = fopen(path.c_str(), "wb");
  if (!f) return false;
  fwrite(s.data(), 1, s.size(), f);
  fclose(f);
  return true;
}

}  // namespace sim
