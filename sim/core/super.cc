// Supervisor: generates plans from seeds, runs each plan in a forked child,
// collects results, gates and minimises failures, writes replay files and a
// JSON summary.  The supervisor itself never initialises liborc.
#include "sim.h"

#include <algorithm>
#include <errno.h>
#include <fcntl.h>
#include <poll.h>
#include <signal.h>
#include <sys/mman.h>
#include <sys/resource.h>
#include <sys/stat.h>
#include <sys/time.h>
#include <sys/wait.h>
#include <time.h>
#include <unistd.h>

namespace sim {

Child *g_child = nullptr;

std::string repo_root() {
  const char *e = getenv("ORCSIM_REPO");
  return e ? e : "/repo";
}
std::string g_self_exe = "/proc/self/exe";
std::string verif_root() {
  const char *e = getenv("ORCSIM_VERIF");
  return e ? e : "/verif";
}

// ---------------------------------------------------------------------------
// Child side
// ---------------------------------------------------------------------------
static std::string esc(const std::string &s) {
  std::string o;
  for (char c : s) {
    if (c == '\n') o += "\\n";
    else if (c == '\t') o += "\\t";
    else if (c == '\\') o += "\\\\";
    else o += c;
  }
  return o;
}
static std::string unesc(const std::string &s) {
  std::string o;
  for (size_t i = 0; i < s.size(); i++) {
    if (s[i] == '\\' && i + 1 < s.size()) {
      i++;
      o += s[i] == 'n' ? '\n' : s[i] == 't' ? '\t' : s[i];
    } else o += s[i];
  }
  return o;
}

void Child::event(const char *fmt, ...) {
  char buf[1024];
  va_list ap;
  va_start(ap, fmt);
  int n = vsnprintf(buf, sizeof buf, fmt, ap);
  va_end(ap);
  if (n < 0) n = 0;
  if (n >= (int)sizeof buf) n = sizeof buf - 1;
  log.add(buf, n);
  log.add("\n", 1);
  res.steps++;
  if (verbose) { if (getenv("ORCSIM_SELFTEST_VERBOSE")) fprintf(stdout, "[%d] ", (int)getpid()); fwrite(buf, 1, n, stdout); fputc('\n', stdout); fflush(stdout); }
}

static void write_all(int fd, const std::string &s) {
  size_t off = 0;
  while (off < s.size()) {
    ssize_t n = write(fd, s.data() + off, s.size() - off);
    if (n < 0) { if (errno == EINTR) continue; break; }
    off += n;
  }
}

void Child::violation(const std::string &vclass, const std::string &vkey, const std::string &msg,
                      bool continuable) {
  std::string sig = vclass + "|" + vkey;
  if (continuable && known.count(sig)) {
    res.known[sig]++;
    if (verbose) printf("known-finding (continuing): %s: %s\n", sig.c_str(), msg.c_str());
    return;
  }
  res.vclass = vclass;
  res.vkey = vkey;
  res.vmsg = msg;
  if (verbose) printf("VIOLATION-IN-RUN class=%s key=%s: %s\n", vclass.c_str(), vkey.c_str(), msg.c_str());
  finish();
}

void Child::finish() {
  res.loghash = log.h;
  std::string o;
  if (!res.vclass.empty()) o += "V " + esc(res.vclass) + "\t" + esc(res.vkey) + "\t" + esc(res.vmsg) + "\n";
  o += strf("H %llu %llu %llu\n", (unsigned long long)res.loghash, (unsigned long long)res.steps, (unsigned long long)res.dkey);
  for (auto &kv : res.counters) o += strf("C %s %llu\n", kv.first.c_str(), (unsigned long long)kv.second);
  if (!state_set.empty()) {
    o += "S";
    for (auto h : state_set) o += strf(" %llx", (unsigned long long)h);
    o += "\n";
  }
  for (auto &kv : res.known) o += strf("K %s\t%llu\n", esc(kv.first).c_str(), (unsigned long long)kv.second);
  for (auto &n : res.notes) o += "N " + esc(n) + "\n";
  for (auto &d : res.sched) o += "D " + esc(d) + "\n";
  o += "E\n";
  write_all(out_fd, o);
  fflush(stdout);
  _exit(0);
}

// ---------------------------------------------------------------------------
// Hang watchdog inside the child.  A run that blocks (a mutex that is never
// released) burns no CPU, so RLIMIT_CPU never fires; a plain wall-clock alarm
// would have to be long enough for a heavily loaded machine.  Instead a 2 s
// interval timer looks at the process CPU time: three consecutive intervals
// without any CPU progress, outside the places where the child legitimately
// waits for a grandchild, mean the run is blocked.  A generous wall-clock cap
// remains as the last resort.
// ---------------------------------------------------------------------------
volatile int g_waiting_for_grandchild = 0;
static volatile long long g_wd_last_cpu_ns = -1;
static volatile int g_wd_idle = 0, g_wd_ticks = 0, g_wd_cap_ticks = 0;
static void watchdog_tick(int) {
  struct timespec ts;
  clock_gettime(CLOCK_PROCESS_CPUTIME_ID, &ts);
  long long now = ts.tv_sec * 1000000000LL + ts.tv_nsec;
  if (g_waiting_for_grandchild) g_wd_idle = 0;
  else if (g_wd_last_cpu_ns >= 0 && now - g_wd_last_cpu_ns < 500000) g_wd_idle++;   // < 0.5 ms of CPU in 2 s
  else g_wd_idle = 0;
  g_wd_last_cpu_ns = now;
  if (g_wd_idle >= 3 || ++g_wd_ticks >= g_wd_cap_ticks) {
    signal(SIGALRM, SIG_DFL);
    raise(SIGALRM);
  }
}
static void start_watchdog(int cap_seconds) {
  g_wd_cap_ticks = cap_seconds / 2;
  struct sigaction sa;
  memset(&sa, 0, sizeof sa);
  sa.sa_handler = watchdog_tick;
  sa.sa_flags = SA_RESTART;
  sigaction(SIGALRM, &sa, nullptr);
  struct itimerval it = {{2, 0}, {2, 0}};
  setitimer(ITIMER_REAL, &it, nullptr);
}

// ---------------------------------------------------------------------------
// Supervisor side
// ---------------------------------------------------------------------------
static double now_s() {
  struct timespec ts;
  clock_gettime(CLOCK_MONOTONIC, &ts);  // wall time for budgets/evidence only, never for decisions inside a run
  return ts.tv_sec + ts.tv_nsec * 1e-9;
}

static void parse_result(const std::string &blob, RunResult &r, bool &complete) {
  complete = false;
  for (auto &line : split(blob, '\n')) {
    if (line.empty()) continue;
    char t = line[0];
    std::string rest = line.size() > 2 ? line.substr(2) : "";
    if (t == 'V') {
      auto f = split(rest, '\t');
      r.vclass = unesc(f[0]);
      if (f.size() > 1) r.vkey = unesc(f[1]);
      if (f.size() > 2) r.vmsg = unesc(f[2]);
    } else if (t == 'H') {
      unsigned long long a = 0, b = 0, c3 = 0;
      sscanf(rest.c_str(), "%llu %llu %llu", &a, &b, &c3);
      r.loghash = a; r.steps = b; r.dkey = c3;
    } else if (t == 'C') {
      auto w = words(rest);
      if (w.size() == 2) r.counters[w[0]] = strtoull(w[1].c_str(), nullptr, 10);
    } else if (t == 'S') {
      for (auto &w : words(rest)) r.states.push_back(strtoull(w.c_str(), nullptr, 16));
    } else if (t == 'K') {
      auto f = split(rest, '\t');
      if (f.size() == 2) r.known[unesc(f[0])] = strtoull(f[1].c_str(), nullptr, 10);
    } else if (t == 'N') {
      r.notes.push_back(unesc(rest));
    } else if (t == 'D') {
      r.sched.push_back(unesc(rest));
    } else if (t == 'E') {
      complete = true;
    }
  }
}

struct Slot {
  pid_t pid = 0;
  int rfd = -1;
  int efd = -1;
  std::string buf;
  double started = 0;
  size_t job = 0;
};

struct Options {
  std::string prop, tier = "quick", out, only_sig;
  uint64_t seed = 1;
  uint64_t runs = 100;
  int workers = 16;
  double budget_s = 0;       // stop starting new runs after this many seconds (0 = none)
  double run_timeout_s = 300;
  int child_alarm_s = 0;   // wall-clock cap of the in-child watchdog; 0: 90 s (single-task engines), 240 s (schedsim)
  int cpu_limit_s = 60;
  std::set<std::string> known;
  bool verbose = false;
  int max_report = 4;        // distinct unknown signatures to gate/minimise
  double shrink_budget_s = 90;
};

static Options g_opt;

static std::string read_fd_all(int fd, size_t cap) {
  std::string s;
  lseek(fd, 0, SEEK_SET);
  char buf[4096];
  ssize_t n;
  while ((n = read(fd, buf, sizeof buf)) > 0) {
    s.append(buf, n);
    if (s.size() > cap) break;
  }
  return s;
}

static pid_t spawn_child(const Engine *eng, const std::vector<std::string> &plan, int &rfd, int &efd,
                         bool verbose) {
  int p[2];
  if (pipe(p) != 0) { perror("pipe"); exit(3); }
  efd = memfd_create("orcsim-stderr", MFD_CLOEXEC);
  fflush(stdout);
  fflush(stderr);
  pid_t pid = fork();
  if (pid < 0) { perror("fork"); exit(3); }
  if (pid == 0) {
    close(p[0]);
    if (efd >= 0) dup2(efd, 2);
    struct rlimit rl;
    rl.rlim_cur = g_opt.cpu_limit_s; rl.rlim_max = g_opt.cpu_limit_s + 5;
    setrlimit(RLIMIT_CPU, &rl);
    rl.rlim_cur = rl.rlim_max = 0;
    setrlimit(RLIMIT_CORE, &rl);
    // a run that blocks without burning CPU (a mutex that is never released) is ended by a wall-clock alarm
    // in the child itself, long before the supervisor's own timeout: SIGALRM is classified as a hang
    start_watchdog(g_opt.child_alarm_s > 0 ? g_opt.child_alarm_s : (!strcmp(eng->name, "sched") ? 240 : 90));
    static Child c;
    g_child = &c;
    c.out_fd = p[1];
    c.verbose = verbose;
    c.known = g_opt.known;
    eng->run(plan, c);
    c.finish();
  }
  close(p[1]);
  rfd = p[0];
  fcntl(rfd, F_SETFL, fcntl(rfd, F_GETFL) | O_NONBLOCK);
  return pid;
}

static void reap(Slot &s, RunResult &r, bool timed_out) {
  int st = 0;
  while (waitpid(s.pid, &st, 0) < 0 && errno == EINTR) {}
  bool complete = false;
  parse_result(s.buf, r, complete);
  std::string err = s.efd >= 0 ? read_fd_all(s.efd, 1 << 16) : "";
  if (err.size() > 6000) err = err.substr(0, 6000);
  r.stderr_tail = err;
  if (timed_out) r.end = "timeout";
  else if (WIFSIGNALED(st)) r.end = strf("signal:%d", WTERMSIG(st));
  else if (WIFEXITED(st) && WEXITSTATUS(st) == 77) r.end = "sanitizer";
  else if (WIFEXITED(st) && WEXITSTATUS(st) != 0) r.end = strf("exit:%d", WEXITSTATUS(st));
  else if (!complete) r.end = "noresult";
  else r.end = "ok";
  if (r.end != "ok" && r.vclass.empty()) {
    // abnormal end is itself a violation class, attributed to the seed
    r.vclass = r.end == "sanitizer" ? "sanitizer" : (r.end == "timeout" || r.end == "signal:14" || r.end == "signal:24") ? "hang" : "crash";
    if (r.vclass == "hang") r.end = "timeout";
    std::string key = r.end;
    if (r.end == "sanitizer") {
      // key: the sanitizer's error kind (e.g. heap-use-after-free), not addresses
      size_t p = err.find("ERROR: AddressSanitizer: ");
      if (p != std::string::npos) {
        size_t q = p + strlen("ERROR: AddressSanitizer: ");
        size_t e = err.find_first_of(" \n", q);
        key = err.substr(q, e - q);
      } else if (err.find("LeakSanitizer") != std::string::npos) key = "leak";
    }
    r.vkey = key;
    r.vmsg = "child ended with " + r.end;
  }
  close(s.rfd);
  if (s.efd >= 0) close(s.efd);
  s.pid = 0;
}

// Run one plan synchronously in a forked child.
static RunResult run_one(const Engine *eng, const std::vector<std::string> &plan, bool verbose = false) {
  if (getenv("ORCSIM_NOFORK")) {
    // debugging aid (gdb, valgrind): execute the plan in this very process
    static Child c;
    g_child = &c;
    c.out_fd = 1;
    c.verbose = true;
    c.known = g_opt.known;
    eng->run(plan, c);
    c.finish();
  }
  Slot s;
  s.pid = spawn_child(eng, plan, s.rfd, s.efd, verbose);
  s.started = now_s();
  bool timed_out = false;
  for (;;) {
    struct pollfd pfd = {s.rfd, POLLIN, 0};
    int pr = poll(&pfd, 1, 200);
    if (pr > 0) {
      char buf[65536];
      ssize_t n = read(s.rfd, buf, sizeof buf);
      if (n > 0) s.buf.append(buf, n);
      else if (n == 0) break;
      else if (errno != EAGAIN && errno != EINTR) break;
    }
    if (now_s() - s.started > g_opt.run_timeout_s) { kill(s.pid, SIGKILL); timed_out = true; break; }
  }
  RunResult r;
  reap(s, r, timed_out);
  return r;
}

static std::vector<std::string> load_plan(const std::string &path, bool &ok) {
  std::string s = read_file(path, &ok);
  std::vector<std::string> lines;
  if (!ok) return lines;
  for (auto &l : split(s, '\n')) if (!l.empty()) lines.push_back(l);
  return lines;
}
static std::string join_plan(const std::vector<std::string> &plan) {
  std::string s;
  for (auto &l : plan) s += l + "\n";
  return s;
}
static std::string header_value(const std::vector<std::string> &plan, const char *key) {
  for (auto &l : plan) {
    auto w = words(l);
    if (w.size() >= 2 && w[0] == key) return w[1];
  }
  return "";
}

// Fresh-process execution of a plan file: fork + exec of ourselves.
static bool fresh_replay(const std::string &path, RunResult &r) {
  int p[2];
  if (pipe(p) != 0) return false;
  fflush(stdout);
  pid_t pid = fork();
  if (pid == 0) {
    close(p[0]);
    dup2(p[1], 1);
    int dn = open("/dev/null", O_WRONLY);
    if (dn >= 0) dup2(dn, 2);
    execl(sim::g_self_exe.c_str(), "orcsim", "exec-plan", path.c_str(), (char *)nullptr);
    _exit(127);
  }
  close(p[1]);
  std::string out;
  char buf[4096];
  ssize_t n;
  while ((n = read(p[0], buf, sizeof buf)) > 0) out.append(buf, n);
  close(p[0]);
  int st;
  waitpid(pid, &st, 0);
  // exec-plan prints "RESULT\t<class>\t<key>\t<loghash>"
  size_t pos = out.rfind("RESULT\t");
  if (pos == std::string::npos) return false;
  auto f = split(out.substr(pos, out.find('\n', pos) - pos), '\t');
  if (f.size() < 4) return false;
  r.vclass = f[1]; r.vkey = f[2]; r.loghash = strtoull(f[3].c_str(), nullptr, 10);
  return true;
}

// ddmin-style minimisation over deletable lines, then per-line simplification.
static std::vector<std::string> shrink(const Engine *eng, std::vector<std::string> plan,
                                       const std::string &sig, int &reruns) {
  double t0 = now_s();
  auto same = [&](const std::vector<std::string> &cand) {
    reruns++;
    RunResult r = run_one(eng, cand);
    return r.violated() && r.sig() == sig;
  };
  auto deletable_idx = [&](const std::vector<std::string> &p) {
    std::vector<size_t> d;
    for (size_t i = 0; i < p.size(); i++) if (eng->deletable(p[i])) d.push_back(i);
    return d;
  };
  bool progress = true;
  while (progress && now_s() - t0 < g_opt.shrink_budget_s) {
    progress = false;
    size_t chunk = std::max<size_t>(deletable_idx(plan).size() / 2, 1);
    for (;;) {
      size_t i = 0;
      for (;;) {
        auto d = deletable_idx(plan);
        if (i >= d.size()) break;
        size_t e = std::min(i + chunk, d.size());
        std::set<size_t> drop(d.begin() + i, d.begin() + e);
        std::vector<std::string> cand;
        for (size_t k = 0; k < plan.size(); k++) if (!drop.count(k)) cand.push_back(plan[k]);
        if (same(cand)) { plan = cand; progress = true; }
        else i += chunk;
        if (now_s() - t0 > g_opt.shrink_budget_s) break;
      }
      if (chunk == 1 || now_s() - t0 > g_opt.shrink_budget_s) break;
      chunk = std::max<size_t>(chunk / 2, 1);
    }
    // simplification of arguments
    if (eng->simplify) {
      for (size_t i = 0; i < plan.size() && now_s() - t0 < g_opt.shrink_budget_s; i++) {
        for (auto &alt : eng->simplify(plan[i])) {
          if (alt == plan[i]) continue;
          auto cand = plan;
          cand[i] = alt;
          if (same(cand)) { plan = cand; progress = true; break; }
        }
      }
    }
  }
  return plan;
}

struct Summary {
  uint64_t runs = 0, ok = 0;
  double wall = 0;
  uint64_t steps = 0;
  std::map<std::string, uint64_t> counters;
  std::set<uint64_t> states;
  std::set<uint64_t> loghashes;
  std::map<std::string, uint64_t> known_hits;
  std::vector<std::vector<std::string>> sample_plans;
  std::vector<std::string> sample_notes;
  uint64_t nontrivial = 0;
};

struct Failure {
  uint64_t seed;
  size_t index;
  std::vector<std::string> plan;
  RunResult res;
};

static int cmd_batch(const Engine *eng) {
  double t0 = now_s();
  if (eng->prepare) eng->prepare();
  Summary sum;
  std::map<std::string, Failure> failures;  // first failure per signature
  std::map<std::string, uint64_t> failure_counts;
  std::vector<Slot> slots(g_opt.workers);
  std::vector<std::vector<std::string>> plans(g_opt.runs);
  std::vector<uint64_t> seeds(g_opt.runs);
  uint64_t sm = g_opt.seed;
  for (uint64_t i = 0; i < g_opt.runs; i++) seeds[i] = mix2(g_opt.seed, i + 1);
  (void)sm;
  size_t next = 0, done = 0, started = 0;
  std::set<uint64_t> nontrivial_keys;
  auto launch = [&](Slot &s) {
    GenArgs ga{g_opt.prop, g_opt.tier, seeds[next], next, g_opt.runs};
    plans[next] = eng->gen(ga);
    s.job = next;
    s.buf.clear();
    s.pid = spawn_child(eng, plans[next], s.rfd, s.efd, false);
    s.started = now_s();
    next++;
    started++;
  };
  bool stop_new = false;
  unsigned total_failing = 0;
  while (true) {
    if (!stop_new && g_opt.budget_s > 0 && now_s() - t0 > g_opt.budget_s) stop_new = true;
    for (auto &s : slots)
      if (!s.pid && next < g_opt.runs && !stop_new) launch(s);
    std::vector<struct pollfd> pf;
    std::vector<Slot *> who;
    for (auto &s : slots) if (s.pid) { pf.push_back({s.rfd, POLLIN, 0}); who.push_back(&s); }
    if (pf.empty()) break;
    poll(pf.data(), pf.size(), 100);
    for (size_t i = 0; i < pf.size(); i++) {
      Slot &s = *who[i];
      bool eof = false, timed_out = false;
      if (pf[i].revents & (POLLIN | POLLHUP)) {
        char buf[65536];
        for (;;) {
          ssize_t n = read(s.rfd, buf, sizeof buf);
          if (n > 0) { s.buf.append(buf, n); continue; }
          if (n == 0) eof = true;
          break;
        }
      }
      if (!eof && now_s() - s.started > g_opt.run_timeout_s) { kill(s.pid, SIGKILL); timed_out = true; eof = true; }
      if (!eof) continue;
      RunResult r;
      size_t job = s.job;
      reap(s, r, timed_out);
      done++;
      sum.runs++;
      sum.steps += r.steps;
      for (auto &kv : r.counters) sum.counters[kv.first] += kv.second;
      for (auto h : r.states) sum.states.insert(h);
      for (auto &kv : r.known) sum.known_hits[kv.first] += kv.second;
      sum.loghashes.insert(r.loghash);
      if (r.steps > 0 && r.end == "ok") nontrivial_keys.insert(r.dkey ? r.dkey : r.loghash);
      // samples spread over the batch (enumerated cells come first, random plans later)
      bool sample_slot = job == 0 || job == g_opt.runs / 2 || job + 1 == g_opt.runs || job == (g_opt.runs * 3) / 4;
      if (sample_slot && sum.sample_plans.size() < 4 && r.end == "ok" && !r.violated()) {
        sum.sample_plans.push_back(plans[job]);
        for (auto &n : r.notes) if (sum.sample_notes.size() < 12) sum.sample_notes.push_back(n);
      }
      if (r.violated()) {
        std::string sig = r.sig();
        // fail fast: hundreds of failing runs add nothing, and hanging runs are expensive
        if (++total_failing >= (r.vclass == "hang" ? 48u : 400u)) stop_new = true;
        failure_counts[sig]++;
        if (!failures.count(sig)) failures[sig] = Failure{seeds[job], job, plans[job], r};
      } else sum.ok++;
      plans[job].clear();
      plans[job].shrink_to_fit();
    }
  }
  sum.wall = now_s() - t0;
  sum.nontrivial = nontrivial_keys.size();

  // ---- gate, minimise, write replay files --------------------------------
  std::string reports_json;
  int exit_code = 0;
  int reported = 0;
  bool nondet = false;
  for (auto &kv : failures) {
    const std::string &sig = kv.first;
    Failure &f = kv.second;
    bool is_known = g_opt.known.count(sig) > 0;
    std::string replay_path;
    std::string gate = "skipped";
    size_t min_lines = f.plan.size();
    int reruns = 0;
    if (is_known) {
      sum.known_hits[sig] += failure_counts[sig];
      gate = "known";
    } else if (reported < g_opt.max_report) {
      reported++;
      // (0) engines with a scheduler report the realised schedule: make it explicit in the plan, so that
      //     the replay file consults no PRNG for scheduling and single switches can be minimised away
      if (!f.res.sched.empty() || f.res.counters.count("sched.tasks")) {
        std::vector<std::string> explicit_plan = f.plan;
        explicit_plan.push_back("replay explicit-schedule");
        for (auto &l : f.res.sched) explicit_plan.push_back(l);
        RunResult er = run_one(eng, explicit_plan);
        if (er.violated() && er.sig() == sig) { f.plan = explicit_plan; f.res.loghash = er.loghash; }
      }
      // (1) same plan again: class, key and event-log hash must match.  If every re-execution violates
      //     the property but not identically, the *code under test* behaves address-dependently (the
      //     usual signature of memory corruption): that is still a violation, reported without
      //     minimisation.  If a re-execution does not violate at all, the simulator is at fault.
      RunResult again = run_one(eng, f.plan);
      bool identical = again.violated() && again.sig() == sig && again.loghash == f.res.loghash;
      if (!identical) {
        int violated = again.violated() ? 1 : 0, attempts = 1;
        std::string seen = again.sig();
        while (attempts < 3 && violated == attempts) {
          RunResult more = run_one(eng, f.plan);
          attempts++;
          if (more.violated()) { violated++; seen += ", " + more.sig(); }
        }
        replay_path = verif_root() + strf("/replays/%s-%llu-unstable.plan", g_opt.prop.c_str(), (unsigned long long)f.seed);
        std::vector<std::string> out = f.plan;
        out.push_back("# violation class=" + f.res.vclass + " key=" + f.res.vkey);
        out.push_back("# message " + esc(f.res.vmsg));
        out.push_back("# UNSTABLE: re-executions gave " + seen);
        write_file(replay_path, join_plan(out));
        if (violated == attempts && attempts == 3) {
          gate = "unstable: all 3 re-executions violated (" + seen + ")";
          printf("VIOLATION property=%s replay=%s\n", g_opt.prop.c_str(), replay_path.c_str());
          printf("  class=%s key=%s seed=%llu runs_failing=%llu (not minimised: every re-execution violates the property, but not "
                 "identically -- %s -- the code under test behaves address-dependently, as after memory corruption)\n",
                 f.res.vclass.c_str(), f.res.vkey.c_str(), (unsigned long long)f.seed, (unsigned long long)failure_counts[sig], seen.c_str());
          printf("  %s\n", f.res.vmsg.c_str());
          exit_code = std::max(exit_code, 1);
        } else {
          gate = strf("NONDETERMINISTIC: %d of %d re-executions violated (%s) vs '%s' hash %llu", violated, attempts, seen.c_str(),
                      sig.c_str(), (unsigned long long)f.res.loghash);
          nondet = true;
        }
      } else {
        // (2) minimise
        std::vector<std::string> minimal = shrink(eng, f.plan, sig, reruns);
        min_lines = minimal.size();
        RunResult mr = run_one(eng, minimal);
        std::vector<std::string> out = minimal;
        out.push_back("# violation class=" + mr.vclass + " key=" + mr.vkey);
        out.push_back("# message " + esc(mr.vmsg));
        out.push_back(strf("# loghash %llu original_seed %llu original_lines %zu", (unsigned long long)mr.loghash,
                           (unsigned long long)f.seed, f.plan.size()));
        replay_path = verif_root() + strf("/replays/%s-%llu.plan", g_opt.prop.c_str(), (unsigned long long)f.seed);
        write_file(replay_path, join_plan(out));
        // (3) fresh process
        RunResult fr;
        bool fresh_ok = fresh_replay(replay_path, fr);
        if (!fresh_ok || !fr.violated()) {
          gate = strf("NONDETERMINISTIC: fresh replay gave '%s' hash %llu vs '%s' hash %llu", fr.sig().c_str(),
                      (unsigned long long)fr.loghash, sig.c_str(), (unsigned long long)mr.loghash);
          nondet = true;
        } else {
          gate = (fr.sig() == sig && fr.loghash == mr.loghash) ? "reproduced" : "reproduced in a fresh process with different detail: " + fr.sig();
          f.res.vmsg = mr.vmsg;
          f.res.stderr_tail = mr.stderr_tail.empty() ? f.res.stderr_tail : mr.stderr_tail;
          printf("VIOLATION property=%s replay=%s\n", g_opt.prop.c_str(), replay_path.c_str());
          printf("  class=%s key=%s seed=%llu runs_failing=%llu minimised %zu -> %zu lines (%d reruns)%s\n",
                 f.res.vclass.c_str(), f.res.vkey.c_str(), (unsigned long long)f.seed,
                 (unsigned long long)failure_counts[sig], f.plan.size(), min_lines, reruns, gate == "reproduced" ? "" : (" [" + gate + "]").c_str());
          printf("  %s\n", f.res.vmsg.c_str());
          exit_code = std::max(exit_code, 1);
        }
      }
    } else {
      exit_code = std::max(exit_code, 1);  // more distinct failures than we minimise: still a failure
      printf("VIOLATION property=%s replay=(not minimised; %s seed %llu)\n", g_opt.prop.c_str(), sig.c_str(),
             (unsigned long long)f.seed);
    }
    if (!reports_json.empty()) reports_json += ",";
    reports_json += strf(
        "{\"class\":\"%s\",\"key\":\"%s\",\"message\":\"%s\",\"seed\":%llu,\"count\":%llu,\"known\":%s,"
        "\"gate\":\"%s\",\"replay\":\"%s\",\"plan_lines\":%zu,\"min_lines\":%zu,\"stderr\":\"%s\"}",
        json_escape(f.res.vclass).c_str(), json_escape(f.res.vkey).c_str(), json_escape(f.res.vmsg).c_str(),
        (unsigned long long)f.seed, (unsigned long long)failure_counts[sig], is_known ? "true" : "false",
        json_escape(gate).c_str(), json_escape(replay_path).c_str(), f.plan.size(), min_lines,
        json_escape(f.res.stderr_tail.substr(0, 1500)).c_str());
  }
  if (nondet) {
    printf("SIMULATOR-NONDETERMINISM property=%s: a failing run did not reproduce; this is a defect of the "
           "machinery, not a verdict about orc\n", g_opt.prop.c_str());
    exit_code = 2;
  }

  // ---- summary -------------------------------------------------------------
  std::string j = "{";
  j += strf("\"property\":\"%s\",\"engine\":\"%s\",\"tier\":\"%s\",\"seed\":%llu,", g_opt.prop.c_str(), eng->name,
            g_opt.tier.c_str(), (unsigned long long)g_opt.seed);
  j += strf("\"runs\":%llu,\"runs_ok\":%llu,\"requested_runs\":%llu,\"wall_s\":%.3f,\"steps\":%llu,",
            (unsigned long long)sum.runs, (unsigned long long)sum.ok, (unsigned long long)g_opt.runs, sum.wall,
            (unsigned long long)sum.steps);
  j += strf("\"distinct_loghashes\":%zu,\"distinct_states\":%zu,\"distinct_nontrivial\":%llu,", sum.loghashes.size(),
            sum.states.size(), (unsigned long long)sum.nontrivial);
  j += "\"counters\":{";
  bool first = true;
  for (auto &kv : sum.counters) {
    j += strf("%s\"%s\":%llu", first ? "" : ",", json_escape(kv.first).c_str(), (unsigned long long)kv.second);
    first = false;
  }
  j += "},\"known_hits\":{";
  first = true;
  for (auto &kv : sum.known_hits) {
    j += strf("%s\"%s\":%llu", first ? "" : ",", json_escape(kv.first).c_str(), (unsigned long long)kv.second);
    first = false;
  }
  j += "},\"sample_plans\":[";
  for (size_t i = 0; i < sum.sample_plans.size(); i++) {
    j += i ? ",[" : "[";
    for (size_t k = 0; k < sum.sample_plans[i].size() && k < 80; k++)
      j += strf("%s\"%s\"", k ? "," : "", json_escape(sum.sample_plans[i][k]).c_str());
    j += "]";
  }
  j += "],\"sample_notes\":[";
  for (size_t i = 0; i < sum.sample_notes.size(); i++)
    j += strf("%s\"%s\"", i ? "," : "", json_escape(sum.sample_notes[i]).c_str());
  j += "],\"violations\":[" + reports_json + "],";
  j += strf("\"exit_code\":%d}", exit_code);
  if (!g_opt.out.empty()) write_file(g_opt.out, j + "\n");
  printf("orcsim: property=%s engine=%s tier=%s runs=%llu ok=%llu distinct=%zu states=%zu wall=%.1fs exit=%d\n",
         g_opt.prop.c_str(), eng->name, g_opt.tier.c_str(), (unsigned long long)sum.runs,
         (unsigned long long)sum.ok, sum.loghashes.size(), sum.states.size(), sum.wall, exit_code);
  return exit_code;
}

// Determinism self-test: every seed is run twice, hashes must agree.
static int cmd_selftest(const Engine *eng) {
  if (eng->prepare) eng->prepare();
  uint64_t bad = 0;
  std::vector<Slot> slots(g_opt.workers);
  struct Job { std::vector<std::string> plan; RunResult r[2]; int got = 0; };
  std::vector<Job> jobs(g_opt.runs);
  for (uint64_t i = 0; i < g_opt.runs; i++)
    jobs[i].plan = eng->gen(GenArgs{g_opt.prop, g_opt.tier, mix2(g_opt.seed, i + 1), i, g_opt.runs});
  size_t next = 0;  // job*2+rep
  while (true) {
    for (auto &s : slots)
      if (!s.pid && next < g_opt.runs * 2) {
        s.job = next;
        s.buf.clear();
        s.pid = spawn_child(eng, jobs[next / 2].plan, s.rfd, s.efd, getenv("ORCSIM_SELFTEST_VERBOSE") != nullptr);
        s.started = now_s();
        next++;
      }
    std::vector<struct pollfd> pf;
    std::vector<Slot *> who;
    for (auto &s : slots) if (s.pid) { pf.push_back({s.rfd, POLLIN, 0}); who.push_back(&s); }
    if (pf.empty()) break;
    poll(pf.data(), pf.size(), 100);
    for (size_t i = 0; i < pf.size(); i++) {
      Slot &s = *who[i];
      bool eof = false, timed_out = false;
      if (pf[i].revents & (POLLIN | POLLHUP)) {
        char buf[65536];
        for (;;) {
          ssize_t n = read(s.rfd, buf, sizeof buf);
          if (n > 0) { s.buf.append(buf, n); continue; }
          if (n == 0) eof = true;
          break;
        }
      }
      if (!eof && now_s() - s.started > g_opt.run_timeout_s) { kill(s.pid, SIGKILL); timed_out = true; eof = true; }
      if (!eof) continue;
      size_t job = s.job;
      reap(s, jobs[job / 2].r[job % 2], timed_out);
      jobs[job / 2].got++;
    }
  }
  for (uint64_t i = 0; i < g_opt.runs; i++) {
    auto &a = jobs[i].r[0], &b = jobs[i].r[1];
    if (a.loghash != b.loghash || a.sig() != b.sig() || a.steps != b.steps || a.end != b.end) {
      bad++;
      printf("DIVERGENCE run %llu seed %llu: hash %llu/%llu steps %llu/%llu sig '%s'/'%s' end %s/%s\n",
             (unsigned long long)i, (unsigned long long)mix2(g_opt.seed, i + 1), (unsigned long long)a.loghash,
             (unsigned long long)b.loghash, (unsigned long long)a.steps, (unsigned long long)b.steps,
             a.sig().c_str(), b.sig().c_str(), a.end.c_str(), b.end.c_str());
      if (getenv("ORCSIM_SELFTEST_VERBOSE")) {
        for (int k = 0; k < 2; k++) {
          FILE *f = fopen(strf("/tmp/orcsim-divergence-%llu-%d.log", (unsigned long long)i, k).c_str(), "w");
          if (f) { fputs(jobs[i].r[k].stderr_tail.c_str(), f); fclose(f); }
        }
      }
    }
  }
  // print a digest over all hashes so that runs at different worker counts can be compared
  Fnv d;
  for (uint64_t i = 0; i < g_opt.runs; i++) { d.addu(jobs[i].r[0].loghash); d.add(jobs[i].r[0].sig()); }
  printf("selftest: property=%s runs=%llu (x2) divergences=%llu digest=%016llx workers=%d\n", g_opt.prop.c_str(),
         (unsigned long long)g_opt.runs, (unsigned long long)bad, (unsigned long long)d.h, g_opt.workers);
  return bad ? 2 : 0;
}

const Engine *engine_by_name(const std::string &name) {
  const Engine *all[] = {hist_engine, cpu_engine, reg_engine, sched_engine};
  for (auto e : all) if (e && name == e->name) return e;
  return nullptr;
}

const Engine *engine_for_property(const std::string &prop) {
  if (prop == "C06" || prop == "C09" || prop == "C16" || prop == "C17") return hist_engine;
  if (prop == "C19") return cpu_engine;
  if (prop == "C20") return reg_engine;
  if (prop == "C08") return sched_engine;
  return nullptr;
}

}  // namespace sim

namespace sim { int pristine_main(int argc, char **argv) __attribute__((weak)); }
using namespace sim;

static void usage() {
  fprintf(stderr,
          "orcsim batch --prop ID [--tier quick|thorough] [--seed N] [--runs N] [--workers N] [--budget S]\n"
          "             [--out summary.json] [--known 'class|key']...\n"
          "orcsim selftest --prop ID [--seed N] [--runs N] [--workers N]\n"
          "orcsim gen --prop ID [--tier T] [--seed N] [--index I]\n"
          "orcsim replay FILE [--verbose]\n");
}

int main(int argc, char **argv) {
  signal(SIGPIPE, SIG_IGN);
  {
    // our own binary, for the helper processes we exec (under Valgrind /proc/self/exe is the tool, not us)
    char buf[4096];
    if (argc > 0 && argv[0] && strchr(argv[0], '/') && realpath(argv[0], buf)) sim::g_self_exe = buf;
  }
  if (argc < 2) { usage(); return 3; }
  std::string cmd = argv[1];
  std::string file;
  uint64_t index = 0;
  for (int i = 2; i < argc; i++) {
    std::string a = argv[i];
    auto val = [&]() -> std::string { if (i + 1 >= argc) { usage(); exit(3); } return argv[++i]; };
    if (a == "--prop") g_opt.prop = val();
    else if (a == "--tier") g_opt.tier = val();
    else if (a == "--seed") g_opt.seed = strtoull(val().c_str(), nullptr, 0);
    else if (a == "--runs") g_opt.runs = strtoull(val().c_str(), nullptr, 0);
    else if (a == "--workers") g_opt.workers = atoi(val().c_str());
    else if (a == "--budget") g_opt.budget_s = atof(val().c_str());
    else if (a == "--out") g_opt.out = val();
    else if (a == "--known") g_opt.known.insert(val());
    else if (a == "--index") index = strtoull(val().c_str(), nullptr, 0);
    else if (a == "--verbose") g_opt.verbose = true;
    else if (a == "--max-report") g_opt.max_report = atoi(val().c_str());
    else if (a == "--shrink-budget") g_opt.shrink_budget_s = atof(val().c_str());
    else if (a == "--run-timeout") g_opt.run_timeout_s = atof(val().c_str());
    else if (a == "--child-alarm") g_opt.child_alarm_s = atoi(val().c_str());
    else if (a[0] != '-') file = a;
    else { usage(); return 3; }
  }
  if (g_opt.workers < 1) g_opt.workers = 1;
  if (cmd == "replay" || cmd == "exec-plan") {
    bool ok;
    auto plan = load_plan(file, ok);
    if (!ok) { fprintf(stderr, "cannot read %s\n", file.c_str()); return 3; }
    // strip trailing comment lines
    std::vector<std::string> p;
    for (auto &l : plan) if (l[0] != '#') p.push_back(l);
    std::string prop = header_value(p, "prop");
    const Engine *eng = engine_by_name(header_value(p, "engine"));
    if (!eng) { fprintf(stderr, "plan names an engine not built into this binary\n"); return 3; }
    if (eng->prepare) eng->prepare();
    for (auto &l : plan) if (starts(l, "# known ")) g_opt.known.insert(l.substr(8));
    RunResult r = run_one(eng, p, cmd == "replay" && g_opt.verbose);
    if (cmd == "exec-plan") {
      printf("RESULT\t%s\t%s\t%llu\n", r.vclass.c_str(), r.vkey.c_str(), (unsigned long long)r.loghash);
      return r.violated() ? 1 : 0;
    }
    if (r.violated()) {
      printf("VIOLATION property=%s replay=%s\n  class=%s key=%s\n  %s\n", prop.c_str(), file.c_str(),
             r.vclass.c_str(), r.vkey.c_str(), r.vmsg.c_str());
      if (!r.stderr_tail.empty()) printf("---- child stderr ----\n%s\n", r.stderr_tail.c_str());
      printf("loghash %llu steps %llu\n", (unsigned long long)r.loghash, (unsigned long long)r.steps);
      return 1;
    }
    printf("replay: no violation (loghash %llu steps %llu)\n", (unsigned long long)r.loghash,
           (unsigned long long)r.steps);
    return 0;
  }
  if (cmd == "pristine") {
    return sim::pristine_main ? sim::pristine_main(argc, argv) : 3;
  }
  if (cmd == "spec") {
    // debugging aid: print the program a spec string denotes, and try it natively vs emulation
    extern int spec_tool(const std::string &spec, const std::string &target, uint64_t ds, int n);
    return spec_tool(file, g_opt.tier == "quick" ? "default" : g_opt.tier, g_opt.seed, (int)g_opt.runs);
  }
  if (cmd == "survey") {
    extern int survey_tool(int count, int len, unsigned flags, uint64_t seed, const std::string &target);
    return survey_tool((int)g_opt.runs, (int)index, (unsigned)g_opt.workers, g_opt.seed, g_opt.tier == "quick" ? "default" : g_opt.tier);
  }
  const Engine *eng = engine_for_property(g_opt.prop);
  if (!eng) { fprintf(stderr, "no engine for property '%s' in this binary\n", g_opt.prop.c_str()); return 3; }
  if (cmd == "gen") {
    if (eng->prepare) eng->prepare();
    auto plan = eng->gen(GenArgs{g_opt.prop, g_opt.tier, mix2(g_opt.seed, index + 1), index, g_opt.runs});
    for (auto &l : plan) puts(l.c_str());
    return 0;
  }
  if (cmd == "batch") return cmd_batch(eng);
  if (cmd == "selftest") return cmd_selftest(eng);
  usage();
  return 3;
}
