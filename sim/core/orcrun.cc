#include "orcrun.h"
#include "sim.h"
#include "../seams/filesim.h"

#include <sys/wait.h>
#include <unistd.h>

#include <algorithm>

namespace sim {

// ---------------------------------------------------------------------------
// corpus (testsuite/test.orc of the working tree)
// ---------------------------------------------------------------------------
static std::vector<std::string> g_corpus_src;
static std::vector<std::string> g_corpus_names;

void corpus_load() {
  if (!g_corpus_src.empty()) return;
  bool ok;
  std::string s = read_file(repo_root() + "/testsuite/test.orc", &ok);
  if (!ok) return;
  size_t pos = s.find(".function");
  while (pos != std::string::npos) {
    size_t nx = s.find("\n.function", pos + 1);
    std::string fn = s.substr(pos, nx == std::string::npos ? std::string::npos : nx + 1 - pos);
    auto w = words(fn.substr(0, fn.find('\n')));
    g_corpus_src.push_back(fn);
    g_corpus_names.push_back(w.size() > 1 ? w[1] : "?");
    pos = nx == std::string::npos ? nx : nx + 1;
  }
}
int corpus_size() { return (int)g_corpus_src.size(); }
const std::string &corpus_text(int k) { return g_corpus_src[k % g_corpus_src.size()]; }
const std::string &corpus_name(int k) { return g_corpus_names[k % g_corpus_names.size()]; }

// ---------------------------------------------------------------------------
// program construction
// ---------------------------------------------------------------------------
void fill_meta(OrcProgram *p, ProgMeta *meta) {
  meta->is_2d = p->is_2d;
  meta->constant_n = p->constant_n;
  meta->constant_m = p->constant_m;
  meta->n_multiple = p->n_multiple;
  meta->n_minimum = p->n_minimum;
  meta->n_maximum = p->n_maximum;
  meta->n_insns = p->n_insns;
  meta->has8 = meta->has_float = meta->unsafe_run = meta->has_acc = false;
  for (int i = 0; i < ORC_N_VARIABLES; i++) {
    int keep = meta->vars[i].shift_max;
    meta->vars[i] = VarMeta();
    meta->vars[i].shift_max = keep;
    if (p->vars[i].size == 0) continue;
    meta->vars[i].vartype = p->vars[i].vartype;
    meta->vars[i].size = p->vars[i].size;
    meta->vars[i].param_type = p->vars[i].param_type;
    meta->vars[i].alignment = p->vars[i].alignment;
    if (p->vars[i].size == 8) meta->has8 = true;
    if (p->vars[i].vartype == ORC_VAR_TYPE_ACCUMULATOR) meta->has_acc = true;
  }
  meta->opnames.clear();
  for (int i = 0; i < p->n_insns; i++) {
    OrcStaticOpcode *op = p->insns[i].opcode;
    if (!op) continue;
    if (op->flags & (ORC_STATIC_OPCODE_FLOAT_SRC | ORC_STATIC_OPCODE_FLOAT_DEST)) meta->has_float = true;
    if (!strncmp(op->name, "ldres", 5) || !strncmp(op->name, "loadoff", 7)) meta->unsafe_run = true;
    // a parameter feeding a scalar shift must stay below the element width
    if ((op->flags & ORC_STATIC_OPCODE_SCALAR) && !(op->flags & ORC_STATIC_OPCODE_LOAD) && op->src_size[1]) {
      int v = p->insns[i].src_args[1];
      if (p->vars[v].vartype == ORC_VAR_TYPE_PARAM) meta->vars[v].shift_max = op->src_size[0] * 8;
    }
    if (!meta->opnames.empty()) meta->opnames += " ";
    if (p->insns[i].flags & ORC_INSTRUCTION_FLAG_X2) meta->opnames += "x2:";
    if (p->insns[i].flags & ORC_INSTRUCTION_FLAG_X4) meta->opnames += "x4:";
    meta->opnames += op->name;
  }
  for (int i = 0; i < ORC_N_VARIABLES; i++)
    if (p->vars[i].vartype == ORC_VAR_TYPE_PARAM &&
        (p->vars[i].param_type == ORC_PARAM_TYPE_FLOAT || p->vars[i].param_type == ORC_PARAM_TYPE_DOUBLE))
      meta->has_float = true;
}

struct OpInfo {
  OrcStaticOpcode *op;
};
static std::vector<OrcStaticOpcode *> usable_opcodes(int maxsize) {
  std::vector<OrcStaticOpcode *> v;
  OrcOpcodeSet *set = orc_opcode_set_get("sys");
  if (!set) return v;
  for (int i = 0; i < set->n_opcodes; i++) {
    OrcStaticOpcode *op = set->opcodes + i;
    if (op->flags & (ORC_STATIC_OPCODE_LOAD | ORC_STATIC_OPCODE_STORE | ORC_STATIC_OPCODE_ITERATOR |
                     ORC_STATIC_OPCODE_FLOAT_SRC | ORC_STATIC_OPCODE_FLOAT_DEST | ORC_STATIC_OPCODE_ACCUMULATOR))
      continue;
    if (op->src_size[2] != 0) continue;
    bool big = false;
    for (int k = 0; k < ORC_STATIC_OPCODE_N_DEST; k++) if (op->dest_size[k] > maxsize) big = true;
    for (int k = 0; k < ORC_STATIC_OPCODE_N_SRC; k++) if (op->src_size[k] > maxsize) big = true;
    if (big) continue;
    v.push_back(op);
  }
  return v;
}

static const char *copy_for_size(int size) {
  switch (size) { case 1: return "copyb"; case 2: return "copyw"; case 4: return "copyl"; default: return "copyq"; }
}

static OrcProgram *gen_program(uint64_t seed, int len, int maxsize, unsigned gflags, ProgMeta *meta) {
  Rng r(mix2(seed, 0x9e17));
  OrcProgram *p = orc_program_new();
  auto ops = usable_opcodes(maxsize);
  struct Val { int var, size; };
  std::vector<Val> pool;
  int nsrc = 0, nconst = 0, nparam = 0, ntemp = 0;
  int temps[9][2] = {{0}};
  int temp_cnt[9] = {0};
  auto new_source = [&](int size) {
    char nm[16];
    snprintf(nm, sizeof nm, "s%d", nsrc + 1);
    int v = orc_program_add_source(p, size, nm);
    nsrc++;
    pool.push_back({v, size});
    return v;
  };
  auto get_temp = [&](int size) {
    // two alternating temporaries per size
    if (temp_cnt[size] < 2 && ntemp < 12) {
      char nm[16];
      snprintf(nm, sizeof nm, "t%d", ntemp + 1);
      int v = orc_program_add_temporary(p, size, nm);
      ntemp++;
      temps[size][temp_cnt[size]++] = v;
      return v;
    }
    return temps[size][r.below(temp_cnt[size] ? temp_cnt[size] : 1)];
  };
  auto add_const = [&](int size, int64_t value) {
    char nm[16];
    snprintf(nm, sizeof nm, "c%d", nconst + 1);
    nconst++;
    if (size == 8) return orc_program_add_constant_int64(p, size, value, nm);
    return orc_program_add_constant(p, size, (int)value, nm);
  };
  auto add_param = [&](int size) {
    char nm[16];
    snprintf(nm, sizeof nm, "p%d", nparam + 1);
    nparam++;
    if (size == 8) return orc_program_add_parameter_int64(p, size, nm);
    return orc_program_add_parameter(p, size, nm);
  };
  static const int sizes[] = {1, 2, 4, 8};
  int s0;
  do s0 = sizes[r.below(4)]; while (s0 > maxsize);
  new_source(s0);
  Val cur = pool[0];
  int emitted = 0;
  // Stay well below the compiler's fixed capacities (ORC_N_INSNS = 100 rewritten
  // instructions, 64 compiler temporaries): every non-temporary operand costs a
  // load instruction plus a temporary, every re-assigned temporary a duplicate.
  // Overflowing those tables is another property's subject.
  int est_temps = 0, est_insns = 0;
  std::set<int> written;
  for (int step = 0; step < len * 4 && emitted < len; step++) {
    if (est_temps + 12 > 44 || est_insns > 66) break;
    OrcStaticOpcode *op = ops[r.below(ops.size())];
    int mult = 1;
    if ((gflags & 1) && r.chance(1, 4)) mult = r.chance(1, 2) ? 2 : 4;
    int maxel = 0;
    for (int k = 0; k < 2; k++) maxel = std::max(maxel, std::max(op->dest_size[k], op->src_size[k]));
    if (maxel * mult > maxsize) mult = 1;
    int ssz0 = op->src_size[0] * mult;
    // first source: the current value of the chain (each temporary is consumed
    // exactly once, by the next instruction -- the shape of orc's own tests and
    // of nearly all real programs), or a source array when sizes do not match
    int a = -1;
    if (cur.size == ssz0) a = cur.var;
    else if (r.chance(1, 3)) {
      std::vector<int> cand;
      for (auto &v : pool) if (v.size == ssz0 && v.var < ORC_VAR_T1) cand.push_back(v.var);
      if (!cand.empty() && r.chance(1, 2)) a = cand[r.below(cand.size())];
      else if (nsrc < 5) a = new_source(ssz0);
      else continue;
    } else continue;
    int b = 0;
    if (op->src_size[1]) {
      int ssz1 = op->src_size[1] * mult;
      if (op->flags & ORC_STATIC_OPCODE_SCALAR) {
        int width = op->src_size[0] * 8;
        if ((gflags & 16) && nparam < 4 && r.chance(1, 3)) {
          b = add_param(op->src_size[1]);
          meta->vars[b].shift_max = width;
        } else if (nconst < 7) b = add_const(op->src_size[1], r.below(width));
        else continue;
      } else {
        std::vector<int> cand;
        for (auto &v : pool) if (v.size == ssz1 && v.var < ORC_VAR_T1) cand.push_back(v.var);
        int choice = (int)r.below(10);
        if (choice < 5 && !cand.empty()) b = cand[r.below(cand.size())];
        else if (choice < 7 && nsrc < 5) b = new_source(ssz1);
        else if (choice < 9 && nconst < 7 && mult == 1) b = add_const(ssz1, (int64_t)r.next());
        else if ((gflags & 16) && nparam < 4 && mult == 1) b = add_param(ssz1);
        else if (!cand.empty()) b = cand[r.below(cand.size())];
        else if (nsrc < 5) b = new_source(ssz1);
        else continue;
      }
    }
    // Operand shapes the pinned suite itself exercises: two *different* sources,
    // and a destination that does not alias the second source.  (Measured on the
    // pinned tree: e.g. mullb/mulhsb/mululq/addssw with src1 == src2, or
    // dest == src2, compile to native code that disagrees with emulation -- a
    // native-vs-emulation defect, C01's subject, kept out of these workloads.)
    if (op->src_size[1] && b == a) continue;
    int d0 = get_temp(op->dest_size[0] * mult);
    if (op->src_size[1] && d0 == b) continue;
    unsigned fl = mult == 2 ? ORC_INSTRUCTION_FLAG_X2 : mult == 4 ? ORC_INSTRUCTION_FLAG_X4 : 0;
    if (op->dest_size[1]) {
      int d1 = get_temp(op->dest_size[1] * mult);
      if (d1 == d0) continue;
      orc_program_append_2(p, op->name, fl, d0, d1, a, 0);
      pool.push_back({d1, op->dest_size[1] * mult});
    } else {
      orc_program_append_2(p, op->name, fl, d0, a, b, 0);
    }
    {
      auto is_temp = [&](int v) { return v >= ORC_VAR_T1; };
      est_insns += 1;
      if (!is_temp(a)) { est_temps++; est_insns++; }
      if (op->src_size[1] && !is_temp(b)) { est_temps++; est_insns++; }
      if (written.count(d0)) est_temps++;
      written.insert(d0);
      if (op->dest_size[1]) est_temps++;
    }
    bool known = false;
    for (auto &v : pool) if (v.var == d0) known = true;
    if (!known) pool.push_back({d0, op->dest_size[0] * mult});
    cur = {d0, op->dest_size[0] * mult};
    emitted++;
  }
  // store the final value
  int d = orc_program_add_destination(p, cur.size, "d1");
  orc_program_append_2(p, copy_for_size(cur.size), 0, d, cur.var, 0, 0);
  if (gflags & 8) {
    std::vector<Val> srcs;
    for (auto &v : pool) if (v.var < ORC_VAR_T1) srcs.push_back(v);
    Val other = srcs[r.below(srcs.size())];
    int d2 = orc_program_add_destination(p, other.size, "d2");
    orc_program_append_2(p, copy_for_size(other.size), 0, d2, other.var, 0, 0);
  }
  if (gflags & 4) {
    // The accumulator is fed straight from a source array, as real users do.
    // (Measured on the pinned tree: an accumulator fed by a *computed* value,
    // e.g. maxsl t, s, const; accl a, t, disagrees with emulation for n that
    // leave a partial vector -- the unused lanes are not zero.  That is a
    // native-vs-emulation defect, C01's subject, and is kept out of these
    // workloads on purpose.)
    int asz = r.chance(1, 2) ? 2 : 4;
    if (nsrc < 7) {
      char nm[16];
      snprintf(nm, sizeof nm, "s%d", nsrc + 1);
      int v = orc_program_add_source(p, asz, nm);
      nsrc++;
      int acc = orc_program_add_accumulator(p, asz, "a1");
      orc_program_append_2(p, asz == 2 ? "accw" : "accl", 0, acc, v, 0, 0);
    }
  }
  if (gflags & 2) orc_program_set_2d(p);
  if (gflags & 32) orc_program_set_constant_n(p, 8 + (int)r.below(40));
  return p;
}

static OrcProgram *fixed_program(const std::string &which) {
  OrcProgram *p = nullptr;
  if (which == "addw") {
    p = orc_program_new_dss(2, 2, 2);
    orc_program_append_str(p, "addw", "d1", "s1", "s2");
  } else if (which == "subb") {
    p = orc_program_new_dss(1, 1, 1);
    orc_program_append_str(p, "subb", "d1", "s1", "s2");
  } else if (which == "mulll") {
    p = orc_program_new_dss(4, 4, 4);
    orc_program_append_str(p, "mulll", "d1", "s1", "s2");
  } else if (which == "addq") {
    p = orc_program_new_dss(8, 8, 8);
    orc_program_append_str(p, "addq", "d1", "s1", "s2");
  } else if (which == "cmpltf") {
    // float sources, integer mask result: a program whose only float operation is a comparison
    p = orc_program_new_dss(4, 4, 4);
    orc_program_append_str(p, "cmpltf", "d1", "s1", "s2");
  } else if (which == "convfl") {
    p = orc_program_new_ds(4, 4);
    orc_program_append_str(p, "convfl", "d1", "s1", nullptr);
  } else if (which == "addf") {
    p = orc_program_new_dss(4, 4, 4);
    orc_program_append_str(p, "addf", "d1", "s1", "s2");
  } else if (which == "regpressure") {
    // 8 sources, 8 parameters and 4 constants all live in one loop body: more vector
    // registers than sse/avx have, so compilation ends in "register overflow" and the
    // program must fall back (C06's register-exhaustion clause)
    p = orc_program_new();
    orc_program_add_destination(p, 2, "d1");
    int t = orc_program_add_temporary(p, 2, "t1");
    char nm[8];
    for (int i = 0; i < 8; i++) { snprintf(nm, sizeof nm, "s%d", i + 1); orc_program_add_source(p, 2, nm); }
    for (int i = 0; i < 8; i++) { snprintf(nm, sizeof nm, "p%d", i + 1); orc_program_add_parameter(p, 2, nm); }
    for (int i = 0; i < 4; i++) { snprintf(nm, sizeof nm, "c%d", i + 1); orc_program_add_constant(p, 2, 3 + 5 * i, nm); }
    orc_program_append_2(p, "addw", 0, t, ORC_VAR_S1, ORC_VAR_S2, 0);
    for (int i = 2; i < 8; i++) orc_program_append_2(p, i % 2 ? "addw" : "subw", 0, t, t, ORC_VAR_S1 + i, 0);
    for (int i = 0; i < 8; i++) orc_program_append_2(p, i % 2 ? "xorw" : "addw", 0, t, t, ORC_VAR_P1 + i, 0);
    for (int i = 0; i < 4; i++) orc_program_append_2(p, i % 2 ? "orw" : "subw", 0, t, t, ORC_VAR_C1 + i, 0);
    orc_program_append_2(p, "copyw", 0, ORC_VAR_D1, t, 0, 0);
  } else if (which == "allregs") {
    // exhausts vector AND general-purpose registers at once: 4 destinations + 8 sources (all 12 array
    // slots), a resampling load (one more gp register), 8 constants and 8 parameters as 32-bit operands and
    // two of the constants again as 16-bit operands (18 loop invariants).  Must end in "register overflow"
    // and fall back.  Compile-only here (resampling loads are never run by these workloads).
    p = orc_program_new();
    orc_program_add_destination(p, 4, "d1"); orc_program_add_destination(p, 4, "d2");
    orc_program_add_destination(p, 4, "d3"); orc_program_add_destination(p, 2, "d4");
    char nm[8];
    for (int i = 1; i <= 8; i++) { snprintf(nm, sizeof nm, "s%d", i); orc_program_add_source(p, 4, nm); }
    for (int i = 1; i <= 8; i++) { snprintf(nm, sizeof nm, "c%d", i); orc_program_add_constant(p, 4, 1000 * i + 7, nm); }
    for (int i = 1; i <= 8; i++) { snprintf(nm, sizeof nm, "p%d", i); orc_program_add_parameter(p, 4, nm); }
    orc_program_add_temporary(p, 4, "t1"); orc_program_add_temporary(p, 4, "t2"); orc_program_add_temporary(p, 2, "t3");
    orc_program_append_str(p, "addl", "t1", "s1", "s2");
    for (int i = 3; i <= 7; i++) { snprintf(nm, sizeof nm, "s%d", i); orc_program_append_str(p, "addl", "t1", "t1", nm); }
    { const char *args[4] = {"t2", "s8", "p1", "p2"}; orc_program_append_str_n(p, "ldresnearl", 0, 4, args); }
    for (int i = 1; i <= 8; i++) { snprintf(nm, sizeof nm, "c%d", i); orc_program_append_str(p, "addl", "t1", "t1", nm); }
    for (int i = 3; i <= 8; i++) { snprintf(nm, sizeof nm, "p%d", i); orc_program_append_str(p, "xorl", "t1", "t1", nm); }
    orc_program_append_str(p, "subl", "t2", "t2", "p1"); orc_program_append_str(p, "subl", "t2", "t2", "p2");
    orc_program_append_str(p, "convlw", "t3", "t1", nullptr);
    orc_program_append_str(p, "addw", "t3", "t3", "c1"); orc_program_append_str(p, "addw", "t3", "t3", "c2");
    orc_program_append_str(p, "copyl", "d1", "t1", nullptr); orc_program_append_str(p, "addl", "d2", "t1", "t2");
    orc_program_append_str(p, "subl", "d3", "t1", "t2"); orc_program_append_str(p, "copyw", "d4", "t3", nullptr);
  } else if (which == "accl") {
    p = orc_program_new_as(4, 4);
    orc_program_append_str(p, "accl", "a1", "s1", nullptr);
  } else if (which == "addqp4") {
    // a 64-bit opcode fed from an ordinary 4-byte parameter (size checks exempt parameters and constants)
    p = orc_program_new();
    orc_program_add_destination(p, 8, "d1");
    orc_program_add_source(p, 8, "s1");
    orc_program_add_parameter(p, 4, "p1");
    orc_program_append_str(p, "addq", "d1", "s1", "p1");
  } else if (which == "acc2") {
    // two accumulators (the second one is what a wrapper's uninitialised executor leaves garbage in)
    p = orc_program_new();
    orc_program_add_source(p, 2, "s1");
    orc_program_add_source(p, 4, "s2");
    orc_program_add_accumulator(p, 2, "a1");
    orc_program_add_accumulator(p, 4, "a2");
    orc_program_append_str(p, "accw", "a1", "s1", nullptr);
    orc_program_append_str(p, "accl", "a2", "s2", nullptr);
  } else {  // copyb
    p = orc_program_new_ds(1, 1);
    orc_program_append_str(p, "copyb", "d1", "s1", nullptr);
  }
  return p;
}

OrcProgram *build_program(const std::string &spec, const std::string &name, ProgMeta *meta) {
  // "<base>+<opcode>.<srcvar>+...": instructions d1 = <opcode> d1, <srcvar> appended to the base program
  auto parts = split(spec, '+');
  auto f = split(parts[0], ':');
  OrcProgram *p = nullptr;
  *meta = ProgMeta();
  meta->spec = spec;
  meta->name = name;
  if (f[0] == "gen" && f.size() >= 5) {
    p = gen_program(strtoull(f[1].c_str(), nullptr, 0), atoi(f[2].c_str()), atoi(f[3].c_str()),
                    (unsigned)strtoul(f[4].c_str(), nullptr, 0), meta);
  } else if (f[0] == "corpus" && f.size() >= 2 && corpus_size() > 0) {
    int k = atoi(f[1].c_str()) % corpus_size();
    OrcProgram **progs = nullptr;
    int n = 0;
    OrcParseError **errors = nullptr;
    int nerr = 0;
    orc_parse_code(g_corpus_src[k].c_str(), &progs, &n, &errors, &nerr);
    if (errors) orc_parse_error_freev(errors);
    if (n > 0) p = progs[0];
    for (int i = 1; i < n; i++) orc_program_free(progs[i]);
    free(progs);
  } else if (f[0] == "fixed" && f.size() >= 2) {
    p = fixed_program(f[1]);
  }
  if (!p) {
    p = fixed_program("copyb");
  }
  for (size_t k = 1; k < parts.size(); k++) {
    auto e = split(parts[k], '.');
    if (e.size() == 2) orc_program_append_2(p, e[0].c_str(), 0, ORC_VAR_D1, ORC_VAR_D1, atoi(e[1].c_str()), 0);
  }
  orc_program_set_name(p, name.c_str());
  fill_meta(p, meta);
  return p;
}

std::string describe_program(OrcProgram *p) {
  static const char *vt[] = {"temp", "src", "dest", "const", "param", "accumulator"};
  std::string s = strf(".function %s%s%s\n", p->name ? p->name : "?", p->is_2d ? "  (2d)" : "",
                       p->constant_n ? strf("  (n=%d)", p->constant_n).c_str() : "");
  for (int i = 0; i < ORC_N_VARIABLES; i++)
    if (p->vars[i].size)
      s += strf("  var %2d %-11s size %d %s value=%lld\n", i, vt[p->vars[i].vartype % 6], p->vars[i].size,
                p->vars[i].name ? p->vars[i].name : "", (long long)p->vars[i].value.i);
  for (int i = 0; i < p->n_insns; i++) {
    OrcInstruction *in = p->insns + i;
    s += strf("  %s%s", in->flags & ORC_INSTRUCTION_FLAG_X2 ? "x2 " : in->flags & ORC_INSTRUCTION_FLAG_X4 ? "x4 " : "", in->opcode->name);
    for (int k = 0; k < ORC_STATIC_OPCODE_N_DEST; k++) if (in->opcode->dest_size[k]) s += strf(" %s", p->vars[in->dest_args[k]].name);
    for (int k = 0; k < ORC_STATIC_OPCODE_N_SRC; k++) if (in->opcode->src_size[k]) s += strf(", %s", p->vars[in->src_args[k]].name);
    s += "\n";
  }
  return s;
}

// ---------------------------------------------------------------------------
// inputs / running
// ---------------------------------------------------------------------------
void make_inputs(const ProgMeta &meta, uint64_t dataseed, int nreq, RunData &d, bool emulation_only) {
  Rng r(mix2(dataseed, 0xda7a));
  int n = 1 + (int)r.below(70);  // always drawn, so that the data stream does not depend on nreq
  if (nreq > 0) n = nreq;
  if (meta.n_minimum > 0 && n < meta.n_minimum) n = meta.n_minimum;
  if (meta.n_maximum > 0 && n > meta.n_maximum) n = meta.n_maximum;
  if (meta.n_multiple > 1) { n = (n / meta.n_multiple) * meta.n_multiple; if (n == 0) n = meta.n_multiple; }
  if (meta.constant_n > 0) n = meta.constant_n;
  int m = 1;
  if (meta.is_2d) m = meta.constant_m > 0 ? meta.constant_m : 1 + (int)r.below(4);
  d.n = n;
  d.m = m;
  // nreq == -1: an empty call (n = 0), legal for every program without a fixed or minimum length; the arrays are
  // laid out as for n elements, none of which may be touched
  bool empty_call = nreq == -1 && meta.constant_n == 0 && meta.n_minimum == 0 && meta.n_multiple <= 1;
  for (int i = 0; i < ORC_N_VARIABLES; i++) {
    d.arr[i].clear();
    d.len[i] = 0;
    d.off[i] = 0;
    d.stride[i] = 0;
    d.params[i] = 0;
  }
  for (int i = 0; i < 4; i++) d.acc[i] = 0;
  for (int i = 0; i < ORC_N_VARIABLES; i++) {
    const VarMeta &v = meta.vars[i];
    if (v.size == 0) continue;
    if (v.vartype == ORC_VAR_TYPE_SRC || v.vartype == ORC_VAR_TYPE_DEST) {
      // row length padded; generous slack so that iterator loads (loadupdb etc.) stay inside
      int stride = ((n * v.size + 15) & ~15) + 32;
      d.stride[i] = stride;
      // 64-byte aligned base plus a seeded misalignment that is a multiple of the element size
      int unit = v.alignment > v.size ? v.alignment : v.size;
      int mis = (r.chance(1, 2) || unit >= 64) ? 0 : (int)(r.below(64 / unit) * unit);
      // Never below the element size when native code may run: element alignment is a precondition of the
      // native code (its head loop counts elements up to the next vector boundary, then uses aligned accesses).
      // The emulator tolerates such arrays and reports them through its debug channel, so runs that are
      // emulation by construction sometimes use them.
      bool submis = emulation_only && v.size >= 2 && v.alignment <= v.size;
      int submis_draw = (int)r.below(3);
      if (submis && submis_draw == 0) mis += 1;
      d.arr[i].assign((size_t)stride * m + 64 + 128, 0);
      uintptr_t base = (uintptr_t)d.arr[i].data();
      d.off[i] = (int)((64 - (base % 64)) % 64) + mis;
      d.len[i] = (size_t)stride * m + 64;
      for (size_t k = 0; k < d.len[i]; k++) d.arr[i][d.off[i] + k] = (uint8_t)r.next();
      // float programs: a quarter of the lanes hold denormals / zeros / tiny values instead of random bits
      if (meta.has_float && (v.size == 4 || v.size == 8)) {
        for (size_t k = 0; k + v.size <= d.len[i]; k += v.size) {
          if (!r.chance(1, 4)) continue;
          uint8_t *q = &d.arr[i][d.off[i] + k];
          uint64_t bits = r.next();
          if (v.size == 4) { uint32_t f = (uint32_t)bits & 0x807fffffu; if (r.chance(1, 4)) f &= 0x80000000u; memcpy(q, &f, 4); }
          else { uint64_t f = bits & 0x800fffffffffffffULL; if (r.chance(1, 4)) f &= 0x8000000000000000ULL; memcpy(q, &f, 8); }
        }
      }
    } else if (v.vartype == ORC_VAR_TYPE_PARAM) {
      uint64_t val = r.next();
      if (v.shift_max > 0) val %= (uint64_t)v.shift_max;
      if (v.param_type == ORC_PARAM_TYPE_FLOAT) {
        orc_union32 u; u.f = 0.5f + (float)(val % 1000) / 500.0f; d.params[i] = u.i;
      } else if (v.param_type == ORC_PARAM_TYPE_DOUBLE) {
        orc_union64 u; u.f = 0.5 + (double)(val % 1000) / 500.0;
        d.params[i] = (int)(u.i & 0xffffffff);
        d.params[i + (ORC_N_PARAMS)] = (int)((u.i >> 32) & 0xffffffff);
      } else if (v.size == 8 || v.param_type == ORC_PARAM_TYPE_INT64) {
        d.params[i] = (int)(val & 0xffffffff);
        d.params[i + (ORC_N_PARAMS)] = (int)(v.shift_max > 0 ? 0 : (val >> 32));
      } else {
        // keep within the element so that sign/zero extension choices do not matter
        if (v.size == 1) d.params[i] = (int)(int8_t)val;
        else if (v.size == 2) d.params[i] = (int)(int16_t)val;
        else d.params[i] = (int)val;
        if (v.shift_max > 0) d.params[i] = (int)val;
      }
    }
  }
  d.exstyle = (int)r.below(5) < 2 ? 1 : (int)r.below(3) == 0 ? 2 : 0;
  d.exgarbage = r.next();
  if (empty_call) d.n = 0;
}

static void run_with_row(OrcProgram *prog, OrcCode *code, const ProgMeta &meta, RunMode mode, RunData &d, int row);
void run_with(OrcProgram *prog, OrcCode *code, const ProgMeta &meta, RunMode mode, RunData &d) { run_with_row(prog, code, meta, mode, d, -1); }

// Reference by emulation.  For 2-D programs the rows are emulated one call at a time (m = 1, array pointers
// advanced by the harness, accumulators added up by the harness), so that the reference does not depend on how
// the emulator itself walks rows.
void reference_emulate(OrcProgram *twin, const ProgMeta &meta, RunData &d) {
  d.exstyle = 0;   // the reference always starts from a zeroed, properly bound executor
  if (!meta.is_2d || d.m <= 1) { run_with_row(twin, nullptr, meta, RUN_EMULATE, d, -1); return; }
  unsigned total[4] = {0, 0, 0, 0};
  for (int row = 0; row < d.m; row++) {
    run_with_row(twin, nullptr, meta, RUN_EMULATE, d, row);
    for (int k = 0; k < 4; k++) total[k] += (unsigned)d.acc[k];
  }
  for (int k = 0; k < 4; k++) d.acc[k] = (int)total[k];
}

// Calls into the library that may end in JIT code go through a shim that preserves every callee-saved register
// itself.  (Measured on the pinned tree: MMX code for a program with nine arrays returns with a callee-saved
// register changed - a calling-convention defect, C10's subject.  Which harness variable lives in that register
// is the C++ compiler's choice, so without the shim a rebuild of the harness decides whether a run crashes.)
extern "C" void orcsim_call_guarded(void (*fn)(OrcExecutor *), OrcExecutor *ex);
__asm__(".text\n"
        ".globl orcsim_call_guarded\n"
        ".type orcsim_call_guarded,@function\n"
        "orcsim_call_guarded:\n"
        "  push %rbx\n  push %rbp\n  push %r12\n  push %r13\n  push %r14\n  push %r15\n"
        "  sub $8, %rsp\n"
        "  mov %rdi, %rax\n  mov %rsi, %rdi\n  call *%rax\n"
        "  add $8, %rsp\n"
        "  pop %r15\n  pop %r14\n  pop %r13\n  pop %r12\n  pop %rbp\n  pop %rbx\n"
        "  ret\n"
        ".size orcsim_call_guarded, .-orcsim_call_guarded\n");

static void run_with_row(OrcProgram *prog, OrcCode *code, const ProgMeta &meta, RunMode mode, RunData &d, int row) {
  OrcExecutor exs;
  OrcExecutor *ex = &exs;
  OrcExecutor *heap_ex = nullptr;
  if (d.exstyle == 2 && prog) {
    // the documented way: a heap executor from orc_executor_new(), released by orc_executor_free()
    heap_ex = orc_executor_new(prog);
    ex = heap_ex;
  } else if (d.exstyle == 1) {
    // uninitialised executor, as in every orcc-generated wrapper (`OrcExecutor _ex, *ex = &_ex;`)
    uint64_t g = d.exgarbage;
    unsigned char *raw = (unsigned char *)ex;
    for (size_t i = 0; i < sizeof *ex; i += 8) { uint64_t v = splitmix64(g); memcpy(raw + i, &v, std::min<size_t>(8, sizeof *ex - i)); }
    if (prog) ex->program = prog;
    else { ex->program = nullptr; ex->arrays[ORC_VAR_A2] = code; }
  } else {
    memset(ex, 0, sizeof *ex);
    if (prog) {
      orc_executor_set_program(ex, prog);
    } else {
      ex->program = nullptr;
      ex->arrays[ORC_VAR_A2] = code;
    }
  }
  orc_executor_set_n(ex, d.n);
  if (meta.is_2d) orc_executor_set_m(ex, row >= 0 ? 1 : d.m);
  for (int i = 0; i < ORC_N_VARIABLES; i++) {
    const VarMeta &v = meta.vars[i];
    if (v.size == 0) continue;
    if (v.vartype == ORC_VAR_TYPE_SRC || v.vartype == ORC_VAR_TYPE_DEST) {
      ex->arrays[i] = d.ptr(i) + (row >= 0 ? (size_t)row * d.stride[i] : 0);
      ex->params[i] = d.stride[i];
    } else if (v.vartype == ORC_VAR_TYPE_PARAM) {
      ex->params[i] = d.params[i];
      // the upper-half slot belongs to 64-bit parameters only; for a smaller one nothing ever writes it (a
      // generated wrapper's executor has stack garbage there)
      if (v.size == 8 && i + (ORC_N_PARAMS) < ORC_N_VARIABLES) ex->params[i + (ORC_N_PARAMS)] = d.params[i + (ORC_N_PARAMS)];
    }
  }
  switch (mode) {
    case RUN_EXEC: orcsim_call_guarded(orc_executor_run, ex); break;
    case RUN_EMULATE: orcsim_call_guarded(orc_executor_emulate, ex); break;
    case RUN_BACKUP: orcsim_call_guarded(orc_executor_run_backup, ex); break;
    case RUN_DIRECT: {
      // what every orcc-generated wrapper does: func = c->exec (or p->code_exec); func (ex);
      OrcExecutorFunc f = prog ? (OrcExecutorFunc)prog->code_exec : code->exec;
      orcsim_call_guarded(f, ex);
      break;
    }
  }
  for (int i = 0; i < 4; i++) d.acc[i] = ex->accumulators[i];
  if (heap_ex) orc_executor_free(heap_ex);
}

std::string compare_outputs(const ProgMeta &meta, const RunData &a, const RunData &b) {
  for (int i = 0; i < ORC_N_VARIABLES; i++) {
    const VarMeta &v = meta.vars[i];
    if (v.size == 0) continue;
    if (v.vartype == ORC_VAR_TYPE_DEST) {
      for (int row = 0; row < a.m; row++) {
        const uint8_t *pa = a.ptr(i) + (size_t)row * a.stride[i];
        const uint8_t *pb = b.ptr(i) + (size_t)row * b.stride[i];
        int len = a.n * v.size;
        if (memcmp(pa, pb, len)) {
          int k = 0;
          while (k < len && pa[k] == pb[k]) k++;
          return strf("dest var %d row %d byte %d: %02x vs %02x (n=%d m=%d)", i, row, k, pa[k], pb[k], a.n, a.m);
        }
      }
      // nothing outside the n elements of each row may change (row padding and the slack behind the last row)
      if (a.len[i] == b.len[i] && memcmp(a.ptr(i), b.ptr(i), a.len[i])) {
        size_t k = 0;
        while (k < a.len[i] && a.ptr(i)[k] == b.ptr(i)[k]) k++;
        return strf("dest var %d: byte %zu beyond the %d elements of its row differs: %02x vs %02x (stride %d, n=%d m=%d)", i, k, a.n, a.ptr(i)[k],
                    b.ptr(i)[k], a.stride[i], a.n, a.m);
      }
    } else if (v.vartype == ORC_VAR_TYPE_ACCUMULATOR) {
      int k = i - ORC_VAR_A1;
      unsigned va = a.acc[k], vb = b.acc[k];
      if (v.size == 2) { va &= 0xffff; vb &= 0xffff; }
      if (va != vb) return strf("accumulator %d: %08x vs %08x (n=%d m=%d)", k, va, vb, a.n, a.m);
    }
  }
  return "";
}

uint64_t hash_outputs(const ProgMeta &meta, const RunData &d) {
  Fnv f;
  for (int i = 0; i < ORC_N_VARIABLES; i++) {
    const VarMeta &v = meta.vars[i];
    if (v.size == 0) continue;
    if (v.vartype == ORC_VAR_TYPE_DEST) {
      f.add(d.ptr(i), d.len[i]);
    } else if (v.vartype == ORC_VAR_TYPE_ACCUMULATOR) {
      unsigned va = d.acc[i - ORC_VAR_A1];
      if (v.size == 2) va &= 0xffff;
      f.addu(va);
    }
  }
  return f.h;
}

// ---------------------------------------------------------------------------
// debug sink
// ---------------------------------------------------------------------------
static uint64_t g_sink_lines = 0;
static volatile size_t g_sink_len = 0;
static void debug_sink(int level, const char *file, const char *func, int line, const char *format, va_list args) {
  // Same contract as the library's default printer (it filters by level and
  // formats), but the text goes to a buffer instead of stderr: bad format
  // strings or NULL arguments still crash here, and debug text can never
  // reach a log or a decision (it contains pointers).
  if (level > orc_debug_get_level()) return;
  char buf[2048];
  int n = vsnprintf(buf, sizeof buf, format, args);
  g_sink_lines++;
  g_sink_len += (n > 0 ? n : 0) + (file ? strlen(file) : 0) + (func ? strlen(func) : 0) + line;
}
void install_debug_sink() { orc_debug_set_print_function(debug_sink); }
uint64_t debug_sink_lines() { return g_sink_lines; }

// ---------------------------------------------------------------------------
// code-memory walker snapshot and invariants
// ---------------------------------------------------------------------------
static void region_cb(void *user, int idx, void *w, void *e, int size) {
  Layout *l = (Layout *)user;
  (void)idx;
  l->regions.push_back(RegionSnap{(uint8_t *)w, (uint8_t *)e, size, {}});
}
static void chunk_cb(void *user, int ridx, int cidx, int offset, int size, int used, int links_ok) {
  Layout *l = (Layout *)user;
  (void)cidx;
  if (ridx < (int)l->regions.size() && l->regions[ridx].chunks.size() < 100000)
    l->regions[ridx].chunks.push_back(ChunkSnap{offset, size, used, links_ok});
}
void walk_codemem(Layout &l) {
  l.regions.clear();
  orc_verif_codemem_walk(region_cb, chunk_cb, &l);
}
int Layout::used_chunks() const {
  int n = 0;
  for (auto &r : regions) for (auto &c : r.chunks) if (c.used) n++;
  return n;
}
int Layout::total_chunks() const {
  int n = 0;
  for (auto &r : regions) n += r.chunks.size();
  return n;
}
uint64_t Layout::signature() const {
  Fnv f;
  for (auto &r : regions) {
    f.addu(0xfeed);
    for (auto &c : r.chunks) { f.addu(c.size); f.addu(c.used ? 1 : 0); }
  }
  return f.h;
}
bool Layout::locate(const void *code, int &region, int &offset) const {
  const uint8_t *p = (const uint8_t *)code;
  for (size_t i = 0; i < regions.size(); i++)
    if (p >= regions[i].write_ptr && p < regions[i].write_ptr + regions[i].size) {
      region = i; offset = p - regions[i].write_ptr; return true;
    }
  return false;
}
bool Layout::locate_exec(const void *exec, int &region, int &offset) const {
  const uint8_t *p = (const uint8_t *)exec;
  for (size_t i = 0; i < regions.size(); i++)
    if (p >= regions[i].exec_ptr && p < regions[i].exec_ptr + regions[i].size) {
      region = i; offset = p - regions[i].exec_ptr; return true;
    }
  return false;
}

std::string check_layout(const Layout &l, std::string &key) {
  for (size_t ri = 0; ri < l.regions.size(); ri++) {
    const RegionSnap &r = l.regions[ri];
    if (r.chunks.empty()) { key = "empty-region"; return strf("region %zu has no chunks", ri); }
    int expect = 0;
    bool prev_free = false;
    for (size_t ci = 0; ci < r.chunks.size(); ci++) {
      const ChunkSnap &c = r.chunks[ci];
      if (c.offset != expect) {
        key = c.offset < expect ? "chunk-overlap" : "chunk-gap";
        return strf("region %zu chunk %zu starts at %d, previous chunk ends at %d", ri, ci, c.offset, expect);
      }
      if (c.size <= 0) { key = "chunk-size"; return strf("region %zu chunk %zu has size %d", ri, ci, c.size); }
      if (!c.links_ok) { key = "chunk-links"; return strf("region %zu chunk %zu: prev/region link inconsistent", ri, ci); }
      // (two adjacent free chunks are not a defect by themselves: an allocator may merge when it next looks;
      // whether released memory is coalesced *and reused* is judged by behaviour, see the reuse oracle)
      (void)prev_free;
      prev_free = !c.used;
      expect = c.offset + c.size;
    }
    if (expect != r.size) {
      key = expect < r.size ? "region-undercovered" : "region-overrun";
      return strf("region %zu: chunks cover [0,%d) but region size is %d", ri, expect, r.size);
    }
  }
  return "";
}

// ---------------------------------------------------------------------------
// pristine-process native oracle
// ---------------------------------------------------------------------------
// Runs `spec` natively in a fresh process (exec of ourselves): compile for the
// target with the flag mask, run on the seeded inputs, report the output hash.
std::string g_pristine_diag;
// one attempt: 1 = the helper answered with a hash, 0 = it answered that it could not produce native code,
// -1 = the helper process itself failed (no answer, killed, exec failed)
static int pristine_attempt(const std::string &spec, const std::string &target, unsigned long fmask, int n, uint64_t ds, uint64_t &hash_out) {
  int pfd[2];
  if (pipe(pfd) != 0) { g_pristine_diag = strf("pipe: %s", strerror(errno)); return -1; }
  pid_t pid = fork();
  if (pid < 0) { g_pristine_diag = strf("fork: %s", strerror(errno)); close(pfd[0]); close(pfd[1]); return -1; }
  if (pid == 0) {
    close(pfd[0]);
    dup2(pfd[1], 1);
    std::string a3 = strf("%#lx", fmask), a4 = strf("%d", n), a5 = strf("%llu", (unsigned long long)ds);
    execl(g_self_exe.c_str(), "orcsim", "pristine", spec.c_str(), target.c_str(), a3.c_str(), a4.c_str(), a5.c_str(), (char *)nullptr);
    _exit(127);
  }
  close(pfd[1]);
  std::string out;
  char buf[512];
  for (;;) {
    ssize_t k = read(pfd[0], buf, sizeof buf);
    if (k > 0) { out.append(buf, k); continue; }
    if (k < 0 && errno == EINTR) continue;
    break;
  }
  close(pfd[0]);
  int stt = 0;
  while (waitpid(pid, &stt, 0) < 0 && errno == EINTR) {}
  unsigned long long h = 0;
  int agrees = 1;
  size_t pos = out.find("PRISTINE ok ");
  if (pos != std::string::npos && sscanf(out.c_str() + pos, "PRISTINE ok %llu %d", &h, &agrees) >= 1) {
    hash_out = h;
    return agrees ? 1 : 2;
  }
  if (out.find("PRISTINE ") != std::string::npos) { g_pristine_diag = out.substr(0, 80); return 0; }
  g_pristine_diag = strf("helper gave no answer (wait status %#x, %zu bytes of output)", stt, out.size());
  return -1;
}
int pristine_native_hash(const std::string &spec, const std::string &target, unsigned long fmask, int n, uint64_t ds,
                         uint64_t &hash_out) {
  g_waiting_for_grandchild++;
  int r = -1;
  for (int attempt = 0; attempt < 3 && r < 0; attempt++) {
    if (attempt) usleep(200000);
    r = pristine_attempt(spec, target, fmask, n, ds, hash_out);
  }
  g_waiting_for_grandchild--;
  return r;
}
int pristine_main(int argc, char **argv) {
  if (argc < 7) return 3;
  std::string spec = argv[2], target = argv[3];
  unsigned long fmask = strtoul(argv[4], nullptr, 0);
  int n = atoi(argv[5]);
  uint64_t ds = strtoull(argv[6], nullptr, 0);
  unsetenv("ORC_CODE"); unsetenv("ORC_DEBUG"); unsetenv("ORC_BACKEND"); unsetenv("ORC_TARGET");
  unsetenv("XDG_RUNTIME_DIR"); unsetenv("HOME"); unsetenv("TMPDIR");
  corpus_load();
  fs::reset();
  fs::enable(true);
  fs::set_dir("/tmp", fs::P_OK);
  orc_init();
  install_debug_sink();
  ProgMeta meta;
  OrcProgram *p = build_program(spec, "prog", &meta);
  OrcTarget *t = target == "default" ? orc_target_get_default() : orc_target_get_by_name(target.c_str());
  if (!t || !t->executable) { printf("PRISTINE no-target\n"); return 0; }
  int res = orc_program_compile_full(p, t, orc_target_get_default_flags(t) & (unsigned)fmask);
  if (!ORC_COMPILE_RESULT_IS_SUCCESSFUL(res)) { printf("PRISTINE not-native %#x\n", res); return 0; }
  RunData d, e;
  make_inputs(meta, ds, n, d);
  make_inputs(meta, ds, n, e);
  run_with(p, nullptr, meta, RUN_EXEC, d);
  // ... and whether native code agrees with emulation here, where there is no history, fault or other thread
  ProgMeta tm;
  OrcProgram *twin = build_program(spec, "prog_twin", &tm);
  orc_program_compile_full(twin, nullptr, 0);
  reference_emulate(twin, meta, e);
  int agrees = compare_outputs(meta, d, e).empty();
  printf("PRISTINE ok %llu %d\n", (unsigned long long)hash_outputs(meta, d), agrees);
  return 0;
}
}  // namespace sim
int spec_tool(const std::string &spec, const std::string &target, uint64_t ds, int n) {
  using namespace sim;
  corpus_load();
  orc_init();
  ProgMeta meta, tm;
  OrcProgram *p = build_program(spec, "spec", &meta);
  OrcProgram *twin = build_program(spec, "spec_twin", &tm);
  printf("%s", describe_program(p).c_str());
  OrcTarget *t = target == "default" ? orc_target_get_default() : orc_target_get_by_name(target.c_str());
  int r = orc_program_compile_full(p, t, t ? orc_target_get_default_flags(t) : 0);
  orc_program_compile_full(twin, nullptr, 0);
  printf("compile for %s: %#x %s\n", target.c_str(), r, orc_program_get_error(p));
  if (ORC_COMPILE_RESULT_IS_FATAL(r) || meta.unsafe_run) return 0;
  RunData a, b;
  make_inputs(meta, ds, n, a);
  make_inputs(meta, ds, n, b);
  run_with(p, nullptr, meta, RUN_EXEC, a);
  run_with(twin, nullptr, meta, RUN_EMULATE, b);
  printf("n=%d m=%d native-vs-emulation: %s\n", a.n, a.m, compare_outputs(meta, a, b).c_str());
  if (getenv("SPEC_ASM")) printf("%s\n", orc_program_get_asm_code(p));
  return 0;
}
// survey: native vs emulation over many generated specs (triage aid, not a check)
int survey_tool(int count, int len, unsigned flags, uint64_t seed, const std::string &target) {
  using namespace sim;
  orc_init();
  int bad = 0, ran = 0;
  for (int i = 0; i < count; i++) {
    std::string spec = strf("gen:%llu:%d:8:%u", (unsigned long long)mix2(seed, i) >> 16, len, flags);
    ProgMeta meta, tm;
    OrcProgram *p = build_program(spec, "s", &meta);
    OrcProgram *twin = build_program(spec, "t", &tm);
    OrcTarget *t = target == "default" ? orc_target_get_default() : orc_target_get_by_name(target.c_str());
    int r = orc_program_compile_full(p, t, orc_target_get_default_flags(t));
    orc_program_compile_full(twin, nullptr, 0);
    if (ORC_COMPILE_RESULT_IS_SUCCESSFUL(r)) {
      for (int n : {1, 3, 7, 16, 30, 33, 64}) {
        RunData a, b;
        make_inputs(meta, mix2(seed, i * 100 + n), n, a);
        make_inputs(meta, mix2(seed, i * 100 + n), n, b);
        run_with(p, nullptr, meta, RUN_EXEC, a);
        run_with(twin, nullptr, meta, RUN_EMULATE, b);
        ran++;
        std::string d = compare_outputs(meta, a, b);
        if (!d.empty()) { bad++; printf("MISMATCH %s n=%d [%s]: %s\n", spec.c_str(), n, meta.opnames.c_str(), d.c_str()); break; }
      }
    }
    orc_program_free(p);
    orc_program_free(twin);
  }
  printf("survey: %d specs len=%d flags=%u target=%s: %d mismatching specs (%d runs)\n", count, len, flags, target.c_str(), bad, ran);
  return 0;
}
namespace sim {
__attribute__((noinline)) void scribble_stack(uint64_t seed) {
  volatile uint8_t buf[12288];
  uint64_t x = seed;
  for (size_t i = 0; i < sizeof buf; i += 8) {
    uint64_t v = splitmix64(x);
    for (int k = 0; k < 8; k++) buf[i + k] = (uint8_t)(v >> (8 * k));
  }
  __asm__ volatile("" : : "r"(buf) : "memory");
}

}  // namespace sim
