// Core interfaces between the supervisor, the engines and the child runs.
#pragma once
#include "util.h"

namespace sim {

// ---- result of one simulated run (produced in the child) -------------------
struct RunResult {
  // verdict
  std::string vclass;  // "" = property held on this run
  std::string vkey;    // stable detail used for known-finding matching / shrink equivalence
  std::string vmsg;    // free text
  // how the child ended (filled in by the supervisor)
  std::string end = "ok";  // ok | signal:<n> | sanitizer | timeout | exit:<n> | noresult
  std::string stderr_tail;
  uint64_t loghash = 0;
  uint64_t dkey = 0;       // distinctness key for the evidence (0: the event-log hash)
  uint64_t steps = 0;
  std::map<std::string, uint64_t> counters;
  std::vector<uint64_t> states;            // abstract-state / interleaving hashes seen
  std::map<std::string, uint64_t> known;   // continuable known findings hit (class|key -> count)
  std::vector<std::string> notes;          // sample material (schedule, etc.)
  std::vector<std::string> sched;          // realised schedule deviations (schedsim)
  bool violated() const { return !vclass.empty(); }
  std::string sig() const { return vclass + "|" + vkey; }
};

// ---- context available to engine code inside the child ---------------------
struct Child {
  RunResult res;
  Fnv log;
  bool verbose = false;
  int out_fd = -1;
  std::set<std::string> known;  // "class|key" signatures that may be continued
  std::set<uint64_t> state_set;

  void event(const char *fmt, ...) __attribute__((format(printf, 2, 3)));
  void count(const std::string &name, uint64_t n = 1) { res.counters[name] += n; }
  void state(uint64_t h) { if (state_set.size() < 20000) state_set.insert(h); }
  void note(const std::string &s) { if (res.notes.size() < 64) res.notes.push_back(s); }
  // Report a violation.  If it is a listed known finding and `continuable`,
  // it is counted and the run goes on; otherwise the run ends here.
  void violation(const std::string &vclass, const std::string &vkey, const std::string &msg,
                 bool continuable = false);
  [[noreturn]] void finish();
};
extern Child *g_child;
extern volatile int g_waiting_for_grandchild;   // set around waits for a forked/exec'd helper process

// ---- engines ----------------------------------------------------------------
struct GenArgs {
  std::string prop;
  std::string tier;   // quick | thorough
  uint64_t seed;      // per-run seed
  uint64_t index;     // run index within the batch
  uint64_t total;     // runs in the batch
};

struct Engine {
  const char *name;
  // Pure function of its arguments: the explicit plan, one line per item.
  std::vector<std::string> (*gen)(const GenArgs &);
  // Executes a plan inside the child; never returns normally without calling c.finish().
  void (*run)(const std::vector<std::string> &plan, Child &c);
  // Shrinking support.
  bool (*deletable)(const std::string &line);
  std::vector<std::string> (*simplify)(const std::string &line);
  // Optional: one-time work in the supervisor before any fork (e.g. loading a corpus).
  void (*prepare)();
  // Is a run "non-trivial" for the evidence count, and its distinctness key.
  // Default (null): every run with steps>0 is non-trivial, keyed by loghash.
};

const Engine *engine_for_property(const std::string &prop);
const Engine *engine_by_name(const std::string &name);

// engines (defined in engines/*.cc; absent ones are null in a given variant)
extern const Engine *const hist_engine;
extern const Engine *const cpu_engine;
extern const Engine *const reg_engine;
extern const Engine *const sched_engine;

extern std::string g_self_exe;   // path of this binary (for helper processes it execs)
std::string repo_root();   // /repo unless ORCSIM_REPO is set
std::string verif_root();  // directory holding replays/, evidence/

}  // namespace sim
