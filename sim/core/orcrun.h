// Orc-facing helpers shared by the engines: program construction from a spec
// string, executor set-up, running / emulating with seeded data, the debug
// sink and the code-memory walker snapshot.
#pragma once
#include "util.h"

extern "C" {
#include <orc/orc.h>
#include <orc/orcinternal.h>
#include <orc/orcparse.h>
#include <orc/orcdebug.h>
}

namespace sim {

// Static facts about a program, extracted when it is built, so that a detached
// code object can still be driven after its program has been freed.
struct VarMeta {
  int vartype = 0;   // OrcVarType
  int size = 0;
  int param_type = 0;
  int alignment = 0; // declared alignment of an array (0 = none)
  int shift_max = 0; // >0: parameter feeds a scalar shift, keep value below this
};
struct ProgMeta {
  std::string spec;
  std::string name;
  VarMeta vars[ORC_N_VARIABLES];
  bool is_2d = false;
  int constant_n = 0, constant_m = 0, n_multiple = 0, n_minimum = 0, n_maximum = 0;
  int n_insns = 0;
  bool has8 = false;       // any 8-byte variable (never sent to mmx)
  bool has_float = false;  // results not compared against emulation
  bool unsafe_run = false; // resampling / offset loads: compile-only
  bool has_acc = false;
  std::string opnames;     // space separated opcode names (for messages/samples)
};

// Program specs:
//   gen:<seed>:<len>:<maxsize>:<flags>   generated straight-line program
//        flags bit0 allow x2/x4, bit1 2-D, bit2 accumulator, bit3 second dest,
//        bit4 may use params, bit5 constant n
//   corpus:<k>                           k-th function of testsuite/test.orc (mod count)
//   fixed:<name>                         small hand-written programs (see orcrun.cc)
OrcProgram *build_program(const std::string &spec, const std::string &name, ProgMeta *meta);
// Like build_program but the program uses extension opcodes etc. is engine business.

void corpus_load();              // reads testsuite/test.orc of the working tree (supervisor, before fork)
int corpus_size();
const std::string &corpus_name(int k);
const std::string &corpus_text(int k);   // source text of the k-th function

void fill_meta(OrcProgram *p, ProgMeta *meta);
std::string describe_program(OrcProgram *p);

// ---- running ---------------------------------------------------------------
struct RunData {
  int n = 0, m = 1;
  std::vector<uint8_t> arr[ORC_N_VARIABLES];  // backing store of dest and source arrays
  int off[ORC_N_VARIABLES] = {0};             // start of the array inside the store: the alignment of every
                                              // array is a seeded choice, never an accident of the heap
  uint8_t *ptr(int i) { return arr[i].data() + off[i]; }
  const uint8_t *ptr(int i) const { return arr[i].data() + off[i]; }
  int stride[ORC_N_VARIABLES] = {0};
  int params[ORC_N_VARIABLES] = {0};          // incl. high halves at +ORC_N_PARAMS
  int acc[4] = {0, 0, 0, 0};
  // 0: executor zeroed and bound with orc_executor_set_program(); 1: the way orcc-generated wrappers do it:
  // an uninitialised (here: seeded garbage) OrcExecutor in which only program / code, n, m, arrays, strides and
  // parameters are assigned -- counters, unused slots and the cached entry points hold garbage
  int exstyle = 0;   // (2: heap executor from orc_executor_new / orc_executor_free, program-attached runs only)
  uint64_t exgarbage = 0;
  size_t len[ORC_N_VARIABLES] = {0};          // bytes of each array that belong to the run (rows, padding, slack)
};
// Seeded inputs for a program shape.  `nreq`<=0 picks n from the seed.
void make_inputs(const ProgMeta &meta, uint64_t dataseed, int nreq, RunData &d, bool emulation_only = false);
enum RunMode { RUN_EXEC = 0, RUN_EMULATE = 1, RUN_BACKUP = 2, RUN_DIRECT = 3 };  // DIRECT: call the entry point itself, as orcc-generated wrappers do
// Runs with an executor attached to `prog` (prog != null) or a code-only
// executor on `code`.  Outputs are left in `d`.
void run_with(OrcProgram *prog, OrcCode *code, const ProgMeta &meta, RunMode mode, RunData &d);
// Emulation reference on `twin` (2-D programs: row by row, see orcrun.cc).
void reference_emulate(OrcProgram *twin, const ProgMeta &meta, RunData &d);
// Compare outputs (dest arrays and accumulators); returns "" when equal.
std::string compare_outputs(const ProgMeta &meta, const RunData &a, const RunData &b);
uint64_t hash_outputs(const ProgMeta &meta, const RunData &d);

// ---- debug sink --------------------------------------------------------------
void install_debug_sink();
uint64_t debug_sink_lines();

// ---- code-memory walker snapshot ----------------------------------------------
struct ChunkSnap { int offset, size, used, links_ok; };
struct RegionSnap { uint8_t *write_ptr, *exec_ptr; int size; std::vector<ChunkSnap> chunks; };
struct Layout {
  std::vector<RegionSnap> regions;
  int used_chunks() const;
  int total_chunks() const;
  uint64_t signature() const;  // address-free abstract layout hash
  // region index and offset of a write-side code pointer; false if not inside any region
  bool locate(const void *code, int &region, int &offset) const;
  bool locate_exec(const void *exec, int &region, int &offset) const;
};
void walk_codemem(Layout &l);
// Structural invariants of every region (tiling, order, links, no adjacent free chunks).
// Returns "" or a description; `key` gets a short stable class name.
std::string check_layout(const Layout &l, std::string &key);

// Native output hash of `spec` compiled and run in a fresh process (exec of
// ourselves, no history, no faults).  Used to tell a history/fault/schedule
// effect from a pure-function native-vs-emulation defect (C01's subject).
// Returns 1 and the hash (native code agrees with emulation in the pristine process), 2 and the hash (it
// disagrees there too: a pure-function native-vs-emulation defect, whatever the exact bytes - some of those
// depend on stale register contents and differ from process to process); 0 if the helper answered that it cannot produce native code for this program; -1 if the
// helper process itself failed three times (g_pristine_diag says how): then nothing can be concluded either way.
int pristine_native_hash(const std::string &spec, const std::string &target, unsigned long fmask, int n, uint64_t ds,
                         uint64_t &hash_out);
extern std::string g_pristine_diag;
int pristine_main(int argc, char **argv);

// Stack scribbler: fills a few KiB of stack below the caller with seeded bytes.
void scribble_stack(uint64_t seed);

extern "C" {
// liborc internals reachable because we link the objects statically
extern int _orc_compiler_flag_debug;
extern int _orc_compiler_flag_backup;
extern int _orc_compiler_flag_emulate;
void orc_global_mutex_lock(void);
void orc_global_mutex_unlock(void);
typedef void (*OrcVerifRegionFunc)(void *user, int region_index, void *write_ptr, void *exec_ptr, int size);
typedef void (*OrcVerifChunkFunc)(void *user, int region_index, int chunk_index, int offset, int size, int used,
                                  int links_ok);
int orc_verif_codemem_walk(OrcVerifRegionFunc region_func, OrcVerifChunkFunc chunk_func, void *user);
}

}  // namespace sim
